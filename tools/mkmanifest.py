#!/venv/bin/python
"""Regenerates MANIFEST.json from the table below (keeps it schema-valid)."""
import json, os, sys
HERE = os.path.dirname(os.path.dirname(os.path.abspath(__file__)))
sys.path.insert(0, HERE)
from tools.manifest_table import CHECKS, NOT_APPLICABLE  # noqa: E402

props = [json.loads(l)["id"] for l in open(os.path.join(HERE, "properties.jsonl"))]
checks = []
for pid in props:
    if pid not in CHECKS:
        continue
    c = CHECKS[pid]
    checks.append(
        dict(
            property_id=pid,
            quick_cmd=f"./vcheck.py {pid} --tier quick",
            thorough_cmd=f"./vcheck.py {pid} --tier thorough",
            evidence_file=f"/verif/evidence/{pid}.json",
            replay_cmd_template=f"./vcheck.py {pid} --replay {{path}}",
            engine="vcheck",
            level_claimed=dict(category="exploration", text=c["text"], design_ref=c.get("design_ref", f"DESIGN.md §4 {pid}")),
            level_note=c["note"],
            technique=c["technique"],
        )
    )
na = [dict(property_id=p, reason=NOT_APPLICABLE.get(p, "check not built yet in this session; will be claimed once its oracle has been validated on the unchanged tree")) for p in props if p not in CHECKS]
man = dict(
    version=1,
    setup_cmd="/venv/bin/python -c 'import hypothesis' 2>/dev/null || /venv/bin/pip install --no-index --find-links /opt/veriftools/wheels hypothesis",
    hooks=dict(
        guard="SYNKIT_VERIF",
        enable="no hooks: checks import synkit from /repo's working tree (VERIF_REPO overrides the tree for sensitivity runs)",
        baseline_off_cmd="cd /repo && /venv/bin/python -m pytest -ra -q -p no:cacheprovider --timeout=900 --continue-on-collection-errors",
        source_commits=[],
        add_only=True,
    ),
    engines=[dict(name="vcheck", path="/verif/vcheck.py", serves_properties=[c["property_id"] for c in checks],
                  kind_free_text="property-based testing: Hypothesis strategies and exhaustive small-domain enumeration against explicit oracles (reference models, round trips, differential and metamorphic relations), 16 sharded processes, JSON replay files")],
    checks=checks,
    notes="Every check: exit 0 = held on everything explored, exit 1 + VIOLATION line = violation not listed in known_findings.json, exit 2 = harness error. KNOWN-FINDING lines are printed for entries of known_findings.json that were hit. VERIF_SEED selects the Hypothesis seeds.",
    not_applicable=na,
)
json.dump(man, open(os.path.join(HERE, "MANIFEST.json"), "w"), indent=1)
import subprocess
subprocess.check_call(["python3-vt", "-c", "import json,jsonschema; jsonschema.validate(json.load(open('%s/MANIFEST.json')), json.load(open('/root/.vp/MANIFEST.schema.json')))" % HERE])
print("MANIFEST ok:", len(checks), "checks,", len(na), "not claimed")
