#!/bin/bash
# validates every evidence file against the schema
python3-vt - <<'P'
import json,glob,jsonschema
sch=json.load(open('/root/.vp/EVIDENCE.schema.json'))
for f in sorted(glob.glob('/verif/evidence/*.json')):
    d=json.load(open(f)); jsonschema.validate(d,sch); print(f, 'ok', d['tier'], d['coverage']['evaluations'], d['coverage']['distinct_nontrivial'])
P
