#!/bin/bash
# usage: tools/mutant.sh <patch-file|-r commit-to-revert> <Cxx> [tier] [extra vcheck args]
# Applies a patch to a scratch worktree of /repo (never /repo itself), runs the check against it, removes it.
set -u
P="$1"; C="$2"; T="${3:-quick}"; shift; shift; shift || true
D=$(mktemp -d /tmp/synkit_mut_XXXXXX)
rmdir "$D"
git -C /repo worktree add -q --detach "$D" HEAD || exit 2
if [ "$P" = "-r" ]; then :; fi
case "$P" in
  revert:*) git -C "$D" revert --no-edit "${P#revert:}" >/dev/null || { echo "revert failed"; git -C /repo worktree remove --force "$D"; exit 2; } ;;
  *) git -C "$D" apply "$P" || { echo "patch failed"; git -C /repo worktree remove --force "$D"; exit 2; } ;;
esac
mkdir -p /tmp/synkit_mut_ev
VERIF_REPO="$D" VERIF_EVIDENCE_DIR=/tmp/synkit_mut_ev /verif/vcheck.py "$C" --tier "$T" "$@" | grep -v '^  ' | tail -8
rc=${PIPESTATUS[0]}
git -C /repo worktree remove --force "$D"
rm -rf /tmp/synkit_mut_ev
echo "mutant rc=$rc"
exit $rc
