#!/venv/bin/python
"""Sensitivity helper: tools/mut.py <Cxx> <repo-relative file> <old> <new> [--count N] [--only subs] [--tier quick]
Creates a scratch worktree of /repo under /tmp, replaces <old> by <new> in <file> there, runs the check against it
(VERIF_REPO), prints the verdict lines and removes the worktree.  /repo itself is never touched."""
import argparse, os, subprocess, sys, tempfile, shutil

ap = argparse.ArgumentParser()
ap.add_argument("prop"); ap.add_argument("file"); ap.add_argument("old"); ap.add_argument("new")
ap.add_argument("--count", type=int, default=1); ap.add_argument("--only"); ap.add_argument("--tier", default="quick")
ap.add_argument("--nth", type=int, default=None, help="replace only the n-th occurrence (0-based)")
a = ap.parse_args()
d = tempfile.mkdtemp(prefix="synkit_mut_", dir="/tmp"); os.rmdir(d)
subprocess.check_call(["git", "-C", "/repo", "worktree", "add", "-q", "--detach", d, "HEAD"])
rc = 2
try:
    p = os.path.join(d, a.file)
    s = open(p).read()
    old = a.old.encode().decode("unicode_escape"); new = a.new.encode().decode("unicode_escape")
    if old not in s:
        print("pattern not found"); sys.exit(2)
    if a.nth is not None:
        parts = s.split(old)
        s = old.join(parts[: a.nth + 1]) + new + old.join(parts[a.nth + 1 :])
    else:
        s = s.replace(old, new, a.count)
    open(p, "w").write(s)
    ev = tempfile.mkdtemp(prefix="synkit_mut_ev_", dir="/tmp")
    cmd = ["/verif/vcheck.py", a.prop, "--tier", a.tier] + (["--only", a.only] if a.only else [])
    r = subprocess.run(cmd, env=dict(os.environ, VERIF_REPO=d, VERIF_EVIDENCE_DIR=ev), capture_output=True, text=True)
    lines = [l for l in r.stdout.splitlines() if not l.startswith("KNOWN-FINDING")]
    print("\n".join(lines[-10:])); print(r.stderr[-1500:] if r.returncode == 2 else "")
    rc = r.returncode
    shutil.rmtree(ev, ignore_errors=True)
finally:
    subprocess.call(["git", "-C", "/repo", "worktree", "remove", "--force", d])
print("mutant rc =", rc)
sys.exit(rc)
