#!/venv/bin/python
"""Prints the markdown table of seeded changes (seeded/*/meta.json + first heading of notes.md)."""
import json, os, glob, re
rows = []
for d in sorted(glob.glob("/verif/seeded/*/")):
    m = json.load(open(d + "meta.json"))
    notes = open(d + "notes.md").read() if os.path.exists(d + "notes.md") else ""
    title = next((l.strip("# ").strip() for l in notes.splitlines() if l.strip()), "")
    files = sorted(set(re.findall(r"^\+\+\+ b/(\S+)", open(d + "patch.diff").read(), re.M)))
    rows.append((m["property"], os.path.basename(d.rstrip("/")), ", ".join(f.replace("synkit/", "") for f in files), title[:150], "caught" if m.get("detected") else "MISSED", m.get("first_run", "")))
print("| property | seeded change | file(s) | what it is | quick tier |")
print("|---|---|---|---|---|")
for r in rows:
    print(f"| {r[0]} | `{r[1]}` | {r[2]} | {r[3]} | {r[4]} |")
