#!/venv/bin/python
"""Final pass over seeded/*: apply each patch to /repo ITSELF (git -C /repo apply), run the property's quick tier,
undo it (git -C /repo checkout -- .), and record the verdict in meta.json under 'final_pass'.
Nothing else may use /repo while this runs.  Usage: tools/seed_final_pass.py [name-prefix ...]"""
import glob, json, os, subprocess, sys, time

sel = sys.argv[1:]
head = subprocess.check_output(["git", "-C", "/repo", "rev-parse", "--short", "HEAD"], text=True).strip()
assert subprocess.check_output(["git", "-C", "/repo", "status", "--porcelain", "--untracked-files=no"], text=True).strip() == "", "/repo not clean"
rows = []
for d in sorted(glob.glob("/verif/seeded/*/")):
    name = os.path.basename(d.rstrip("/"))
    if sel and not any(name.startswith(s) for s in sel):
        continue
    meta = json.load(open(d + "meta.json"))
    prop = meta["property"]
    ap = subprocess.run(["git", "-C", "/repo", "apply", d + "patch.diff"], capture_output=True, text=True)
    if ap.returncode:
        res = dict(repo_head=head, applied=False, error=ap.stderr[-300:])
    else:
        try:
            ev = "/tmp/seed_final_ev"
            os.makedirs(ev, exist_ok=True)
            t0 = time.time()
            demo = subprocess.run(["/venv/bin/python", d + "demo.py"], env=dict(os.environ, PYTHONPATH="/repo", PYTHONHASHSEED="0"), cwd="/repo", capture_output=True, text=True, timeout=1800)
            c = subprocess.run(["/verif/vcheck.py", prop, "--tier", "quick"], env=dict(os.environ, VERIF_EVIDENCE_DIR=ev), capture_output=True, text=True)
            lines = [l for l in c.stdout.splitlines() if not l.startswith("KNOWN-FINDING")]
            res = dict(repo_head=head, applied=True, demo_rc_with_patch=demo.returncode, check_cmd=f"./vcheck.py {prop} --tier quick (patch applied to /repo, undone afterwards)",
                       check_rc=c.returncode, detected=c.returncode == 1, wall_s=round(time.time() - t0, 1),
                       violation_lines=[l for l in lines if l.startswith("VIOLATION")][:4], summary=lines[-1] if lines else "")
        finally:
            subprocess.check_call(["git", "-C", "/repo", "checkout", "--", "."])
    meta["final_pass"] = res
    meta["detected"] = bool(res.get("detected"))
    json.dump(meta, open(d + "meta.json", "w"), indent=1)
    rows.append((name, res.get("detected"), res.get("check_rc"), res.get("wall_s")))
    print(name, res.get("detected"), res.get("check_rc"), res.get("wall_s"), flush=True)
print("caught", sum(1 for r in rows if r[1]), "of", len(rows))
