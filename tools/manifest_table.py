CHECKS = {
    "C15": dict(
        text="Model-based testing of CRNHyperGraph: every history over a 21-operation alphabet to depth 3 (quick) / 4 (thorough) is enumerated, and Hypothesis generates histories of up to 60 operations; after every step all public state of both live networks and of every copy is compared with a plain-dict reference model. Exhaustive inside the depth bound, a sample beyond it.",
        note="Trusts the reference model in props/C15.py (documented rejections modelled as no-ops that must raise); a species kept with prune_orphans=False is modelled as staying until it takes part in a reaction again.",
        technique="model-based (stateful) property testing: exhaustive + Hypothesis-generated operation histories vs reference model",
    ),
    "C16": dict(
        text="Round-trip property testing of the three network views: Hypothesis networks (<= 8 species / 10 reactions, catalysts, duplicates, source/sink reactions, coefficients to 12, molecule labels, caller-chosen ids) under every flag combination documented as invertible, plus all networks over 3 species with <= 1 (quick) / <= 2 (thorough) reactions; export, import, compare edge lists / multisets.",
        note="Species names follow the documented label shape [A-Z][A-Za-z0-9]*; rule labels contain no whitespace or separators. The species-graph clause asserts ids and stoichiometry only (rules are not claimed).",
        technique="round-trip property testing (Hypothesis + exhaustive small networks)",
    ),
    "C17": dict(
        text="Differential testing of the stoichiometric analysis against exact rational linear algebra: S recomputed from the reaction list, Fraction rank/kernel, and a two-sided exact decision of conservative/consistent (positive kernel vector or Stiemke alternative, both verified in Fractions, produced by an exact Bland simplex). All one-reaction networks and a slice (quick) / all (thorough) of reaction pairs over 3 species with coefficients 0..2, plus Hypothesis networks to 7 species / 6 reactions and kernel-rich families.",
        note="Kernel bases are checked with a stated tolerance of 1e-8 relative; integer_conservation_laws is checked for count and length only (documented as approximate). One recorded finding (C17-conservative-unbounded-lp) is excluded by an attribution predicate.",
        technique="differential property testing against an exact-arithmetic reference with verified certificates",
    ),
    "C19": dict(
        text="Definition-based oracle for complexes, linkage classes, weak reversibility, deficiency and linkage-class deficiencies (exact rank), on textbook networks with literature values, all one-reaction networks and a slice/all of the reaction pairs over 3 species (coefficients 0..2), a systematic sample of triples, and Hypothesis networks to 6 species / 6 reactions (incl. reversible closures); hypergraph and bipartite inputs must agree.",
        note="Reference implementation in props/C19.py written from the definitions; exact Fraction rank.",
        technique="property testing against the definitions (exhaustive small networks + Hypothesis)",
    ),
    "C20": dict(
        text="Definition-based oracles: every non-empty species subset tested against the siphon/trap predicates (all unit-coefficient networks over 3 species with <= 2 / <= 3 reactions, Hypothesis networks to 6 species), PetriNet.enabled/fire against pre/post arithmetic on generated markings, and pathway realizability decided exactly by a memoised search over fired-count vectors, with every returned certificate re-executed.",
        note="Flows are bounded so that prod(f_e+1) <= 10^4, below the library's default search bound, so 'unrealizable within bounds' coincides with 'unrealizable'.",
        technique="property testing against the Petri-net definitions with exhaustive reachability as reference",
    ),
    "C03": dict(
        text="Validity predicate over every reaction proposed by SynReactor on generated (template, substrate, direction, strategy) tuples built from the corpus (own substrate, same-centre-class substrate, arbitrary substrate; centre and full-ITS templates; explicit and implicit hydrogen modes): substrate side preserved (RDKit key on the string and labelled isomorphism on the glued graph), element/H/charge conservation by an own counter, and change signature of the glued graph isomorphic to the template's. Thorough adds every own pair x 2 kinds x 2 directions x 3 strategies.",
        note="Reactor mode is matched to the template's hydrogen style (input precondition); conservation is asserted only for templates whose reaction is itself balanced incl. H and charge; results above 400 outputs per case are sampled (first 400).",
        technique="property-based testing with a validity-predicate oracle (RDKit + own graph matcher)",
    ),
    "C04": dict(
        text="Round trip extract-template -> apply for every eligible corpus reaction (exhaustive over the corpus: both template kinds, both directions, 1 or 3 strategies) and for Hypothesis-generated rewritings of them (atom-map renumbering, atom re-ordering incl. ring-closure digits, fragment shuffle): the reaction's own RDKit key must be among the keys of the results.",
        note="Preconditions decided from the input: hydrogen style not mixed; centre templates only when nothing changes outside the centre; strategy comp only when the substrate has no more components than the pattern; embedding count within the documented threshold. One recorded finding (a single corpus reaction applied backwards) is excluded by reaction id.",
        technique="round-trip property testing over corpus reactions and generated representation variants",
    ),
    "C05": dict(
        text="Metamorphic testing: the set of distinct results (own RDKit keys) must be identical for the base input, a generated atom-map permutation of the template, a generated rewriting of the substrate SMILES and a repeated call, under all three strategies, with comp subset of all and bt == comp-or-all. Every comparison is evaluated with the reactor as is and with all raw matches injected; only differences that vanish with raw matches are attributed to the recorded pruning finding.",
        note="Reactor mode matched to the template's hydrogen style; representation changes are verified in the generator to leave the chemistry unchanged.",
        technique="metamorphic property testing (representation changes, strategy lattice) with attribution by differential re-run",
    ),
    "C14": dict(
        text="Differential testing of the operational layers: BatchReactor.fit per entry vs SynReactor on that entry alone (ordered lists) over generated batches with repeats and look-alike substrates, cache on/off, cache sizes 1/2/32768, entry/rule worker counts 1-4; the same under a legal adversarial id() (fault injection: a new object may receive the id of a dead one, chosen by generated booleans, GC forced so 'dead' is deterministic); parallel vs serial validate_smiles and dicts_balance_check; parallel (2-8 workers) vs serial SynCRN.build; batched vs one-shot clustering; and schedule injection: joblib.Parallel / ProcessPoolExecutor replaced in the tested modules' globals by executors that run the tasks in a generated order (results returned in submission order, as the real ones guarantee), so 'which task runs first' is an ordinary generated choice; rule pre-filter configurations are compared parallel vs serial.",
        note="With real process pools the OS schedule is not controlled (equality is shown for the worker counts and batches generated); the generated-order executors cover the order of execution but run in one process, so they do not cover faults that need separate address spaces. The adversarial id respects the language guarantee (unique among live objects).",
        technique="differential property testing with fault injection on object identity (Hypothesis-driven)",
    ),
    "C10": dict(
        text="Round-trip and differential testing of the representation layers over a population of 747 molecules (all corpus fragments + a vendored list of charged / aromatic / hetero-aromatic / hypervalent closed-shell molecules) and 356 mapped reactions, each also under generated rewritings: SMILES -> graph -> SMILES against RDKit's canonical form and an RDKit-built reference graph; explicit/implicit hydrogen round trip with constant total H; ITS -> GML -> ITS on (element, charge pair, order pair) with an independent regex reader for the GML text; the three documented routes to a GML rule must give equivalent rules (full ITS with core=True included).",
        note="Stereo, isotopes and radicals are excluded as the statement says; hcount/aromatic are not carried by GML and are not compared there; the implicit direction is asserted only for graphs without explicit H nodes (documented).",
        technique="round-trip + differential property testing (exhaustive over the molecule/reaction population, Hypothesis rewritings)",
    ),
    "C08": dict(
        text="Exhaustive + generated testing of graph canonicalisation: whole enumerated domains of labelled graphs (n<=3 over several attribute alphabets, n=4 elements; thorough adds n=4 element x order, hcount x aromatic, n=5 elements) under all/several insertion orders are grouped by signature and by a reference canonical form (minimum over permutations): every signature group must lie in one isomorphism class for all four back-ends, and for the exact back-end every class must have one signature and one canonical graph. Hypothesis adds faithful-relabelling (bijection onto 1..N recovered by brute force on all attributes), determinism, graph-vs-renumbered/edited-copy pairs and SynRule/SynGraph/CanonicalGraph equality+hash against reference isomorphism.",
        note="Isomorphism is claimed only on the attributes the signature covers; standard_order is assumed to be a function of order as in ITS graphs (the exact search refines on order only).",
        technique="exhaustive small-domain enumeration + Hypothesis pairs against a brute-force canonical form",
    ),
    "C09": dict(
        text="Metamorphic and differential testing of the reaction normal forms on 314 mapped reactions (corpus + vendored) under generated renumbering / atom re-ordering / fragment shuffles: CanonRSMI (wl at several depths, nauty) output is ITS-isomorphic to the input by an own matcher, keeps the unmapped sides, is a fixed point and, for rigid reactant graphs (own automorphism count), independent of numbering; Standardize.fit idempotent and representation-invariant; AAMValidator accepts every renumbering and its verdict on every same-element centre transposition equals an own labelled-isomorphism decision; check_equivariant_graph vs own pairwise isomorphism; rsmi_balance_check equals an own element/H/charge counter on balanced, fragment-deleted/duplicated and one-atom-edited reactions.",
        note="Independence is asserted only when the reactant graph has the identity as its only label-preserving automorphism; invalid SMILES are outside the balance clause's domain.",
        technique="metamorphic + differential property testing against own matcher/counter (Hypothesis over corpus variants and adversarial edits)",
    ),
    "C12": dict(
        text="Validity + exhaustive maximality of MCS results for both MCSMatcher classes: every ordered pair of the 772 isomorphism-class representatives with <= 4 nodes (every 48th in quick, all 595 984 in thorough) and Hypothesis pairs up to 6x7 nodes (planted cores, copies, one-edit copies, disconnected, first graph larger/smaller). Each mapping must be injective, label- and bond-preserving in both directions with equal order; in maximum mode all mappings have the reference size found by an own branch-and-bound over injective partial maps; the two directions are mutual inverses; inputs unmodified.",
        note="The documented notion is a common induced subgraph that need not be connected; heuristic modes (mcs_mol, component mapping) are not exercised.",
        technique="property testing with a validity predicate and an exhaustive-search maximality oracle",
    ),
    "C13": dict(
        text="Partition oracle for clustering: lists of 2-14 reaction-centre graphs built from corpus centres with generated exact copies, relabelled copies and near-misses (one charge / one order component changed), in generated orders, with none or one of 8 invariant pre-grouping attributes; GraphCluster.fit / iterative_cluster and BatchCluster.fit (generated batch sizes, arrival orders) must induce exactly the partition given by pairwise brute-force isomorphism on (element, charge, order pair); incremental histories of lib_check / cluster / fit against no, fitted or given representatives are checked after every step (joins its isomorphic representative's class or opens an unused id).",
        note="Lists are non-empty (empty input raises IndexError in one-shot mode - outside the statement); list-valued attributes are passed sorted.",
        technique="reference-partition property testing incl. generated incremental histories",
    ),
    "C01": dict(
        text="Round trip + structural invariant of the ITS encoding: all 340 well-formed corpus reactions as written and reversed (exhaustive) and Hypothesis rewritings (renumbering with offset, atom re-ordering, fragment shuffle, reversal, added spectator explicit H): rsmi_to_graph equals RDKit-only side graphs, the ITS is exactly the union with (before, after) order pairs and their difference, its_decompose returns both graphs, its_to_rsmi (both hydrogen modes) keeps the unmapped sides and gives an ITS that matches the input's (identity on maps or own isomorphism). Synthetic (G,H) pairs on a shared node set: every pair on n<=3 (thorough; n<=2 + 1/50 of n=3 in quick) and Hypothesis pairs n<=6 with independent per-side attributes and bond states.",
        note="'neighbors' is deliberately not compared after decompose (not carried); default-mode its_to_rsmi is compared after folding non-centre explicit H on both sides with an own folding function.",
        technique="round-trip + invariant property testing (exhaustive small pairs, corpus sweep, Hypothesis rewritings)",
    ),
    "C02": dict(
        text="Independent recomputation of the reaction centre and its contexts: get_rc must equal {bonds with o_G != o_H} + {H-H bonds} with their end atoms and ITS labels exactly, be idempotent, commute exactly with atom-map renumbering, and agree with rsmi_to_its(core=True) and with RDKit-only changed bonds; extract_k(k=0..3) must be the centre / the induced ITS subgraph on an own BFS ball, forming a chain. Domains: 340 corpus reactions + rewritings, every ITS on n<=3 over {C,H} x bond-state pairs, Hypothesis synthetic ITS with H-H bonds and aromatic orders.",
        note="Default construction only (ignore_aromaticity=False); the is_mtg edge flag is ignored.",
        technique="differential property testing against an independent recomputation (exhaustive small ITS + corpus + Hypothesis)",
    ),
    "C11": dict(
        text="Reference-model testing of the symmetry layer: Automorphism count/orbits vs brute-force per-component groups on all labelled graphs n<=4 (+1/8 of n=5; thorough: n<=5 complete) and Hypothesis graphs <=9 nodes incl. symmetric families; AutoEst orbits must be a coarsening of the true orbits (and equal an own k-round colour refinement); deduplicate_matches_with_anchor on brute-force match lists must return an order-preserving sub-list of the input's own dicts with one representative per documented class; and SynReactor with pruning must give the same set of distinct reactions as the same reactor fed every raw SubgraphSearchEngine match.",
        note="Component swaps are excluded as documented. The pruning clause has one recorded finding (C11-pruning-left-only-orbits) attributed by predicate left_only_orbits; estimate-wl-classes and orbit-accuracy assert the classes' docstrings (slightly beyond the statement, quiet on the tree).",
        technique="reference-model property testing (brute-force automorphism groups) + differential pruned-vs-raw rule application",
    ),
    "C18": dict(
        text="Network canonical form and automorphism data vs brute force on the view digraphs (bipartite and species views, 7 configurations): all networks over 3 species with <=2 reactions under all species permutations and reaction orders (one representative per class; exhaustive in thorough), symmetric families to 14 view nodes, Hypothesis networks <=6 species / 5 reactions with renaming, reordering, id regeneration and one-edit near-misses (iso => identical canonical graph, non-iso => different), CRNCanonicalizer and CRNAutomorphism each against its own documented notion of structure; fault injection: a legal adversarial id() in the canon module must not change any result; WLCanonicalizer documented claims.",
        note="CRNAutomorphism ignores edge attributes by design (checked on node keys only); stopped_early is inconclusive. Canonical labels 1..N are not claimed by the statement.",
        technique="metamorphic + reference-model property testing with identity fault injection",
    ),
    "C06": dict(
        text="Reference-model testing of SubgraphSearchEngine: the result of strategies all / comp / bt (strict_cc_count on/off) must equal, in both directions, the set of label-preserving monomorphisms (resp. its component-respecting subset, resp. the fallback) enumerated by an own back-tracking matcher that is cross-checked against literal enumeration; no duplicates, inputs unmodified, and limits (max_results, threshold, pre_filter) only truncate or, past the threshold, empty the list. Domain: every isomorphism class of hosts <=4 x patterns <=3 nodes over element x hcount x order (1/40 slice of 4-node hosts in quick, complete in thorough: 3.86M pairs) plus Hypothesis planted / doubly planted / independent hosts <=9 nodes with 1-3 component patterns.",
        note="The band between 'total exceeds the threshold' and 'every per-component count within it' is left unasserted (the docstring allows either).",
        technique="reference-model property testing (exhaustive small pairs + Hypothesis) against brute-force monomorphism enumeration",
    ),
    "C07": dict(
        text="Reference-model, differential and history testing of the isomorphism layer: GraphMatcherEngine.isomorphic / get_mappings, SubgraphMatch and graph_morphism verdicts vs brute-force bijection / injection search on all ordered pairs of class representatives <=4 nodes (quick slice / thorough 754k pairs) and Hypothesis pairs <=8 nodes (copies, one-edit neighbours, hcount-shifted copies, sub-patterns); invariance under relabelling either argument; every pre-filter (wl1_filter, use_filter, pre_filter) on vs off; and generated query histories (lists of operations over a pool of graph objects and engines with different attribute selections) where every answer must equal a fresh engine on fresh copies and the brute-force answer.",
        note="isomorphic(g1,g2): g1 plays the host role of the hcount rule; get_mappings is held to the weaker reading on both sides (valid monomorphisms, non-empty whenever the pattern is induced-contained).",
        technique="reference-model + differential (filters on/off) + model-based history testing",
    ),
}
NOT_APPLICABLE = {}
