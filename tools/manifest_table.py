CHECKS = {
    "C15": dict(
        text="Model-based testing of CRNHyperGraph: every history over a 21-operation alphabet to depth 3 (quick) / 4 (thorough) is enumerated, and Hypothesis generates histories of up to 60 operations; after every step all public state of both live networks and of every copy is compared with a plain-dict reference model. Exhaustive inside the depth bound, a sample beyond it.",
        note="Trusts the reference model in props/C15.py (documented rejections modelled as no-ops that must raise); a species kept with prune_orphans=False is modelled as staying until it takes part in a reaction again.",
        technique="model-based (stateful) property testing: exhaustive + Hypothesis-generated operation histories vs reference model",
    ),
}
NOT_APPLICABLE = {}
