#!/bin/bash
# Runs every registered quick check on /repo (seed from VERIF_SEED, default 1), then validates all evidence files.
cd /verif
rc=0
for c in $(/venv/bin/python -c "import json; print(' '.join(x['property_id'] for x in json.load(open('MANIFEST.json'))['checks']))"); do
  out=$(./vcheck.py $c --tier quick 2>&1); r=$?
  echo "$out" | grep -v '^KNOWN-FINDING' | tail -1
  [ $r -ne 0 ] && { echo "  -> exit $r"; echo "$out" | grep -E "VIOLATION|HARNESS" | head -5; rc=1; }
done
tools/validate_evidence.sh | tail -22
exit $rc
