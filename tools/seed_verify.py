#!/venv/bin/python
"""tools/seed_verify.py <Cxx> <src_dir> <name> [--only subs]
Confirms a seeded change (src_dir has patch.diff, demo.py, notes.md) in a scratch worktree of /repo:
demo passes on the clean tree, fails with the patch, the repository suite passes with the patch; then runs the
property's quick check against the patched worktree and stores everything under /verif/seeded/<Cxx>_<name>/."""
import argparse, json, os, shutil, subprocess, sys, tempfile, time

ap = argparse.ArgumentParser()
ap.add_argument("prop"); ap.add_argument("src"); ap.add_argument("name"); ap.add_argument("--only"); ap.add_argument("--skip-suite", action="store_true")
ap.add_argument("--tier", default="quick")
a = ap.parse_args()
wt = tempfile.mkdtemp(prefix="synkit_seed_", dir="/tmp"); os.rmdir(wt)
subprocess.check_call(["git", "-C", "/repo", "worktree", "add", "-q", "--detach", wt, "HEAD"])
meta = dict(property=a.prop, name=a.name, repo_head=subprocess.check_output(["git", "-C", "/repo", "rev-parse", "--short", "HEAD"], text=True).strip())
env = dict(os.environ, PYTHONPATH=wt, PYTHONHASHSEED="0")
try:
    demo = os.path.join(a.src, "demo.py")
    r0 = subprocess.run(["/venv/bin/python", demo], env=env, cwd=wt, capture_output=True, text=True, timeout=900)
    meta["demo_clean_rc"] = r0.returncode
    ap_ = subprocess.run(["git", "-C", wt, "apply", os.path.join(a.src, "patch.diff")], capture_output=True, text=True)
    if ap_.returncode:
        print("patch does not apply:", ap_.stderr); sys.exit(2)
    r1 = subprocess.run(["/venv/bin/python", demo], env=env, cwd=wt, capture_output=True, text=True, timeout=900)
    meta["demo_patched_rc"] = r1.returncode
    meta["demo_patched_tail"] = (r1.stdout + r1.stderr)[-400:]
    if not a.skip_suite:
        t = subprocess.run(["/venv/bin/python", "-m", "pytest", "-q", "-p", "no:cacheprovider", "--timeout=900", "--continue-on-collection-errors"], env=env, cwd=wt, capture_output=True, text=True)
        meta["suite_rc"] = t.returncode
        meta["suite_summary"] = t.stdout.strip().splitlines()[-1] if t.stdout.strip() else ""
    ev = tempfile.mkdtemp(prefix="synkit_seed_ev_", dir="/tmp")
    cmd = ["/verif/vcheck.py", a.prop, "--tier", a.tier] + (["--only", a.only] if a.only else [])
    t0 = time.time()
    c = subprocess.run(cmd, env=dict(os.environ, VERIF_REPO=wt, VERIF_EVIDENCE_DIR=ev), capture_output=True, text=True)
    meta["check_cmd"] = " ".join(cmd) + f"  (VERIF_REPO=<patched scratch worktree>)"
    meta["check_rc"] = c.returncode
    meta["check_wall_s"] = round(time.time() - t0, 1)
    lines = [l for l in c.stdout.splitlines() if not l.startswith("KNOWN-FINDING")]
    meta["check_output_tail"] = lines[-8:]
    meta["detected"] = c.returncode == 1
    shutil.rmtree(ev, ignore_errors=True)
finally:
    subprocess.call(["git", "-C", "/repo", "worktree", "remove", "--force", wt])
ok = meta.get("demo_clean_rc") == 0 and meta.get("demo_patched_rc") not in (0, None) and (a.skip_suite or meta.get("suite_rc") == 0)
meta["confirmed"] = ok
dst = os.path.join("/verif/seeded", f"{a.prop}_{a.name}")
if ok:
    os.makedirs(dst, exist_ok=True)
    for f in ("patch.diff", "demo.py", "notes.md"):
        if os.path.exists(os.path.join(a.src, f)):
            shutil.copy(os.path.join(a.src, f), dst)
    json.dump(meta, open(os.path.join(dst, "meta.json"), "w"), indent=1)
print(json.dumps({k: meta[k] for k in meta if k not in ("demo_patched_tail",)}, indent=1))
