"""Independent reference implementations for (sub)graph matching on small labelled graphs.

Plain backtracking over injective maps written from the definitions; no networkx matcher, no SynKit code.
Graphs are networkx Graph/DiGraph objects; labels are obtained through caller-supplied functions
    node_ok(pattern_node_data, host_node_data) -> bool
    edge_ok(pattern_edge_data, host_edge_data) -> bool
"""
from __future__ import annotations

import itertools
from typing import Callable, Dict, Iterator, List, Optional


def _adj(g, u, v):
    return g.has_edge(u, v)


def monomorphisms(pattern, host, node_ok: Callable, edge_ok: Callable, induced: bool = False, limit: Optional[int] = None) -> Iterator[Dict]:
    """All injective maps pattern->host with node_ok on every node, every pattern edge on a host edge with
    edge_ok; if `induced`, additionally non-adjacent pattern nodes map to non-adjacent host nodes.
    Works for Graph and DiGraph (for DiGraph arcs are ordered)."""
    pn = list(pattern.nodes)
    # order: most constrained first (connected expansion)
    order = []
    seen = set()
    rest = sorted(pn, key=lambda n: -pattern.degree(n))
    while rest:
        if order:
            nxt = next((n for n in rest if any(pattern.has_edge(n, m) or pattern.has_edge(m, n) for m in order)), rest[0])
        else:
            nxt = rest[0]
        rest.remove(nxt)
        order.append(nxt)
    hn = list(host.nodes)
    cand = {p: [h for h in hn if node_ok(pattern.nodes[p], host.nodes[h])] for p in pn}
    directed = pattern.is_directed()
    count = 0
    mapping: Dict = {}
    used = set()

    def consistent(p, h):
        for q, hq in mapping.items():
            pairs = [(p, q, h, hq)]
            if directed:
                pairs.append((q, p, hq, h))
            for a, b, ha, hb in pairs:
                pe = pattern.has_edge(a, b)
                he = host.has_edge(ha, hb)
                if pe:
                    if not he or not edge_ok(pattern.edges[a, b], host.edges[ha, hb]):
                        return False
                elif induced and he:
                    return False
        if pattern.has_edge(p, p):
            if not host.has_edge(h, h) or not edge_ok(pattern.edges[p, p], host.edges[h, h]):
                return False
        elif induced and host.has_edge(h, h):
            return False
        return True

    def rec(i):
        nonlocal count
        if i == len(order):
            count += 1
            yield dict(mapping)
            return
        p = order[i]
        for h in cand[p]:
            if h in used:
                continue
            if consistent(p, h):
                mapping[p] = h
                used.add(h)
                yield from rec(i + 1)
                del mapping[p]
                used.discard(h)
                if limit is not None and count >= limit:
                    return

    yield from rec(0)


def isomorphisms(g1, g2, node_ok, edge_ok, limit=None):
    if g1.number_of_nodes() != g2.number_of_nodes() or g1.number_of_edges() != g2.number_of_edges():
        return iter(())
    return monomorphisms(g1, g2, node_ok, edge_ok, induced=True, limit=limit)


def is_isomorphic(g1, g2, node_ok, edge_ok) -> bool:
    return next(iter(isomorphisms(g1, g2, node_ok, edge_ok, limit=1)), None) is not None


def eq_on(keys, defaults=None):
    defaults = defaults or {}

    def f(a, b):
        return all(a.get(k, defaults.get(k)) == b.get(k, defaults.get(k)) for k in keys)

    return f


def automorphisms(g, node_keys, edge_keys, defaults=None) -> List[Dict]:
    return list(isomorphisms(g, g, eq_on(node_keys, defaults), eq_on(edge_keys, defaults)))


def orbits_from(autos, nodes):
    parent = {n: n for n in nodes}

    def find(x):
        while parent[x] != x:
            parent[x] = parent[parent[x]]
            x = parent[x]
        return x

    for a in autos:
        for u, v in a.items():
            ru, rv = find(u), find(v)
            if ru != rv:
                parent[ru] = rv
    cl = {}
    for n in nodes:
        cl.setdefault(find(n), set()).add(n)
    return sorted((frozenset(s) for s in cl.values()), key=lambda s: sorted(map(repr, s)))


def canon_min(g, node_label, edge_label):
    """Canonical form = lexicographically smallest (node labels, labelled edge list) over all node orders.
    node_label(data)->sortable, edge_label(data)->sortable.  Factorial: use only for n <= 7."""
    nodes = list(g.nodes)
    n = len(nodes)
    labels = {v: node_label(g.nodes[v]) for v in nodes}
    best = None
    # only permutations that sort node labels first (valid: canonical orders are label-sorted)
    groups = {}
    for v in nodes:
        groups.setdefault(repr(labels[v]), []).append(v)
    keys = sorted(groups)
    directed = g.is_directed()
    for combo in itertools.product(*[itertools.permutations(groups[k]) for k in keys]):
        order = [v for grp in combo for v in grp]
        pos = {v: i for i, v in enumerate(order)}
        es = []
        for u, v, d in g.edges(data=True):
            a, b = pos[u], pos[v]
            if not directed and a > b:
                a, b = b, a
            es.append((a, b, repr(edge_label(d))))
        es.sort()
        form = (tuple(keys[i] for i, k in enumerate(keys) for _ in groups[k]), tuple(es))
        if best is None or form < best:
            best = form
    if best is None:
        best = ((), ())
    return best
