"""Exact rational linear algebra: rank, kernel, and a two-sided certified decision of
'does A v = 0 have a strictly positive solution' (positive vector or Stiemke alternative)."""
from __future__ import annotations

from fractions import Fraction
from typing import List, Optional, Tuple

Mat = List[List[Fraction]]


def to_frac(A) -> Mat:
    return [[Fraction(int(x)) if float(x) == int(x) else Fraction(x) for x in row] for row in A]


def rref(A: Mat) -> Tuple[Mat, List[int]]:
    M = [row[:] for row in A]
    rows = len(M)
    cols = len(M[0]) if rows else 0
    piv = []
    r = 0
    for c in range(cols):
        p = next((i for i in range(r, rows) if M[i][c] != 0), None)
        if p is None:
            continue
        M[r], M[p] = M[p], M[r]
        pv = M[r][c]
        M[r] = [x / pv for x in M[r]]
        for i in range(rows):
            if i != r and M[i][c] != 0:
                f = M[i][c]
                M[i] = [a - f * b for a, b in zip(M[i], M[r])]
        piv.append(c)
        r += 1
        if r == rows:
            break
    return M, piv


def rank(A) -> int:
    A = to_frac(A)
    if not A or not A[0]:
        return 0
    return len(rref(A)[1])


def kernel(A, ncols=None) -> List[List[Fraction]]:
    """Basis of {v : A v = 0} as a list of vectors."""
    A = to_frac(A)
    n = ncols if ncols is not None else (len(A[0]) if A else 0)
    if not A or n == 0:
        return [[Fraction(int(i == j)) for i in range(n)] for j in range(n)]
    M, piv = rref(A)
    free = [c for c in range(n) if c not in piv]
    basis = []
    for f in free:
        v = [Fraction(0)] * n
        v[f] = Fraction(1)
        for r, c in enumerate(piv):
            v[c] = -M[r][f]
        basis.append(v)
    return basis


def matvec(A: Mat, v) -> List[Fraction]:
    return [sum(a * b for a, b in zip(row, v)) for row in A]


def transpose(A):
    if not A:
        return []
    return [list(col) for col in zip(*A)]


def _phase1(A: Mat, b: List[Fraction]):
    """Exact phase-1 simplex (Bland) for {A w = b, w >= 0}.  Returns (feasible, w, y) where y are the
    phase-1 duals (used to build a Farkas certificate when infeasible)."""
    m = len(A)
    n = len(A[0]) if m else 0
    rows = []
    sign = []
    for i in range(m):
        s = -1 if b[i] < 0 else 1
        sign.append(s)
        rows.append([s * x for x in A[i]] + [Fraction(int(i == k)) for k in range(m)] + [s * b[i]])
    basis = [n + i for i in range(m)]
    total = n + m
    # objective: minimise sum of artificials -> reduced costs
    cost = [Fraction(0)] * n + [Fraction(1)] * m

    def reduced():
        z = [Fraction(0)] * (total + 1)
        for i, bi in enumerate(basis):
            cb = cost[bi]
            if cb:
                for j in range(total + 1):
                    z[j] += cb * rows[i][j]
        return [cost[j] - z[j] for j in range(total)], z[total]

    for _ in range(100000):
        rc, obj = reduced()
        enter = next((j for j in range(total) if rc[j] < 0), None)
        if enter is None:
            break
        best = None
        for i in range(m):
            a = rows[i][enter]
            if a > 0:
                ratio = rows[i][total] / a
                if best is None or ratio < best[0] or (ratio == best[0] and basis[i] < basis[best[1]]):
                    best = (ratio, i)
        if best is None:
            raise RuntimeError("phase-1 unbounded (impossible)")
        i = best[1]
        pv = rows[i][enter]
        rows[i] = [x / pv for x in rows[i]]
        for k in range(m):
            if k != i and rows[k][enter] != 0:
                f = rows[k][enter]
                rows[k] = [a - f * c for a, c in zip(rows[k], rows[i])]
        basis[i] = enter
    else:
        raise RuntimeError("simplex did not terminate")
    rc, obj = reduced()
    w = [Fraction(0)] * n
    for i, bi in enumerate(basis):
        if bi < n:
            w[bi] = rows[i][total]
    # duals of the sign-normalised system: y_i = 1 - rc[artificial i]; undo the sign flips
    y = [sign[i] * (Fraction(1) - rc[n + i]) for i in range(m)]
    return obj == 0, w, y


def positive_kernel_vector(A) -> Tuple[Optional[bool], object]:
    """Decide whether some v > 0 (componentwise) satisfies A v = 0, with a certificate checked exactly.

    Returns (True, v) with A v = 0, v >= 1;  (False, y) with z = A^T y >= 0 and z != 0 (Stiemke);
    (None, reason) if the certificate failed verification (never expected)."""
    A = to_frac(A)
    m = len(A)
    n = len(A[0]) if m else 0
    if n == 0:
        return True, []
    if m == 0:
        return True, [Fraction(1)] * n
    ones = [Fraction(1)] * n
    b = [-x for x in matvec(A, ones)]
    feas, w, y = _phase1(A, b)
    if feas:
        v = [1 + x for x in w]
        if all(x >= 1 for x in v) and all(x == 0 for x in matvec(A, v)):
            return True, v
        return None, "positive certificate failed verification"
    for cand in (y, [-t for t in y]):
        z = matvec(transpose(A), cand) if m else []
        if all(t >= 0 for t in z) and any(t > 0 for t in z):
            return False, cand
    return None, "alternative certificate failed verification"
