"""Shared pieces of the C06 / C07 checks: reference matchers written from the definitions, enumeration of
small labelled graphs up to isomorphism, constructive Hypothesis generators (planted patterns, relabelled copies,
sub-patterns).  Nothing in here imports SynKit.

Graph cases use the graph_gen JSON shape {"nodes": [[id, attrs], ...], "edges": [[u, v, attrs], ...]}.
"""
from __future__ import annotations

import itertools
import json
from functools import lru_cache

import networkx as nx
from hypothesis import strategies as st

from vlib import graph_gen
from vlib.oracles import iso
from vlib.runner import HarnessError

to_nx = graph_gen.to_nx


# ------------------------------------------------------------------ plain helpers
def snapshot(g):
    """Everything observable about a graph object, order included (used for the 'inputs not modified' clause)."""
    return json.dumps(
        [
            [[repr(n), sorted((k, repr(v)) for k, v in d.items())] for n, d in g.nodes(data=True)],
            [[repr(u), repr(v), sorted((k, repr(x)) for k, x in d.items())] for u, v, d in g.edges(data=True)],
            sorted((k, repr(v)) for k, v in g.graph.items()),
        ]
    )


def components(g):
    """Connected components by our own breadth-first search: list of node lists, and node -> component index."""
    comp_of = {}
    comps = []
    for s in g.nodes:
        if s in comp_of:
            continue
        idx = len(comps)
        comp_of[s] = idx
        cur = [s]
        queue = [s]
        while queue:
            x = queue.pop()
            for y in g.adj[x]:
                if y not in comp_of:
                    comp_of[y] = idx
                    cur.append(y)
                    queue.append(y)
        comps.append(cur)
    return comps, comp_of


def monos_literal(pattern, host, node_ok, edge_ok, induced=False):
    """The definition, literally: every tuple of candidate host nodes, kept when injective and edge preserving
    (and, if induced, non-edge preserving)."""
    pn = list(pattern.nodes)
    hn = list(host.nodes)
    cand = [[h for h in hn if node_ok(pattern.nodes[p], host.nodes[h])] for p in pn]
    pedges = list(pattern.edges(data=True))
    nonedges = [(u, v) for u, v in itertools.combinations(pn, 2) if not pattern.has_edge(u, v)] if induced else []
    out = []
    for combo in itertools.product(*cand):
        if len(set(combo)) != len(combo):
            continue
        m = dict(zip(pn, combo))
        if not all(host.has_edge(m[u], m[v]) and edge_ok(d, host.edges[m[u], m[v]]) for u, v, d in pedges):
            continue
        if any(host.has_edge(m[u], m[v]) for u, v in nonedges):
            continue
        out.append(m)
    return out


def literal_cost(pattern, host, node_ok):
    c = 1
    for p in pattern.nodes:
        c *= max(1, sum(1 for h in host.nodes if node_ok(pattern.nodes[p], host.nodes[h])))
    return c


def key_of(m):
    return tuple(sorted(m.items()))


def monos(pattern, host, node_ok, edge_ok, induced=False, cross_check=4000):
    """All label-preserving injective maps pattern -> host (back-tracking reference); cross-checked against the
    literal enumeration whenever that is cheap, so that a slip in either reference is a harness error."""
    res = list(iso.monomorphisms(pattern, host, node_ok, edge_ok, induced=induced))
    if cross_check and literal_cost(pattern, host, node_ok) <= cross_check:
        lit = monos_literal(pattern, host, node_ok, edge_ok, induced=induced)
        a, b = sorted(map(key_of, res)), sorted(map(key_of, lit))
        if a != b:
            raise HarnessError(f"reference matchers disagree: backtracking {a} vs literal {b}")
    return res


def exists_mono(pattern, host, node_ok, edge_ok, induced=False):
    if pattern.number_of_nodes() > host.number_of_nodes() or pattern.number_of_edges() > host.number_of_edges():
        return False
    return next(iter(iso.monomorphisms(pattern, host, node_ok, edge_ok, induced=induced, limit=1)), None) is not None


def exists_iso(g1, g2, node_ok, edge_ok):
    """Bijection preserving adjacency both ways; node_ok(data1, data2), edge_ok(data1, data2)."""
    if g1.number_of_nodes() != g2.number_of_nodes() or g1.number_of_edges() != g2.number_of_edges():
        return False
    return next(iter(iso.monomorphisms(g1, g2, node_ok, edge_ok, induced=True, limit=1)), None) is not None


# ------------------------------------------------------------------ enumeration up to isomorphism
@lru_cache(maxsize=None)
def _class_reps(n, node_labels_json, edge_labels_json, first_id):
    node_labels = json.loads(node_labels_json)
    edge_labels = json.loads(edge_labels_json)
    ids = list(range(first_id, first_id + n))
    pairs = list(itertools.combinations(range(n), 2))
    pidx = {p: i for i, p in enumerate(pairs)}
    out = []
    for seq in itertools.combinations_with_replacement(range(len(node_labels)), n):
        perms = [p for p in itertools.permutations(range(n)) if all(seq[p[i]] == seq[i] for i in range(n))]
        images = [[pidx[tuple(sorted((p[a], p[b])))] for a, b in pairs] for p in perms]
        for el in itertools.product(range(len(edge_labels) + 1), repeat=len(pairs)):
            if any(tuple(el[j] for j in img) < el for img in images):
                continue
            out.append(
                {
                    "nodes": [[ids[i], dict(node_labels[seq[i]])] for i in range(n)],
                    "edges": [[ids[a], ids[b], dict(edge_labels[el[k] - 1])] for k, (a, b) in enumerate(pairs) if el[k]],
                }
            )
    return out


def class_reps(n, node_labels, edge_labels, first_id=1):
    """One representative of every isomorphism class of graphs on n nodes whose node attribute dicts come from
    node_labels and whose edges carry one of edge_labels (orderly generation: node label sequence sorted, edge
    vector minimal under the label-preserving permutations)."""
    return _class_reps(n, json.dumps(node_labels), json.dumps(edge_labels), first_id)


def shift_ids(case, offset):
    return {
        "nodes": [[n + offset, dict(a)] for n, a in case["nodes"]],
        "edges": [[u + offset, v + offset, dict(a)] for u, v, a in case["edges"]],
    }


# ------------------------------------------------------------------ Hypothesis building blocks
def node_attrs_st(elements=("C", "C", "C", "N"), charges=(0, 0, 0, -1), hcounts=(0, 0, 1, 2), hcount_optional=True, aromatic=None):
    fixed = dict(element=st.sampled_from(list(elements)))
    if charges is not None:
        fixed["charge"] = st.sampled_from(list(charges))
    if aromatic is not None:
        fixed["aromatic"] = st.sampled_from(list(aromatic))
    if hcounts is None:
        return st.fixed_dictionaries(fixed)
    if hcount_optional:
        return st.fixed_dictionaries(fixed, optional=dict(hcount=st.sampled_from(list(hcounts))))
    fixed["hcount"] = st.sampled_from(list(hcounts))
    return st.fixed_dictionaries(fixed)


def edge_attrs_st(orders=(1, 1, 1, 2), ring=(False, False, True)):
    d = dict(order=st.sampled_from(list(orders)))
    if ring is not None:
        d["ring"] = st.sampled_from(list(ring))
    return st.fixed_dictionaries(d)


@st.composite
def planted_host(draw, pattern, node_attrs, edge_attrs, max_nodes=9, copies=1, id_pool=60):
    """A host that contains `copies` copies of every pattern component plus extra context: extra nodes hung onto
    existing ones (or opening new components), extra edges (inside a component or bridging two), raised hydrogen
    counts on the copied nodes.  Node ids are fresh, insertion order and edge orientation are shuffled."""
    pn = [n for n, _ in pattern["nodes"]]
    nodes = []  # [local index] -> attrs
    edges = {}
    for _c in range(copies):
        base = len(nodes)
        pos = {n: base + i for i, n in enumerate(pn)}
        for n, a in pattern["nodes"]:
            a = dict(a)
            up = draw(st.sampled_from([0, 0, 0, 1]))
            if up or "hcount" in a:
                a["hcount"] = a.get("hcount", 0) + up
            nodes.append(a)
        for u, v, a in pattern["edges"]:
            edges[frozenset((pos[u], pos[v]))] = dict(a)
    room = max(0, max_nodes - len(nodes))
    k_extra = draw(st.integers(0, room))
    for _ in range(k_extra):
        a = draw(node_attrs)
        i = len(nodes)
        nodes.append(a)
        if draw(st.sampled_from([True, True, True, False])):
            j = draw(st.integers(0, i - 1))
            edges[frozenset((i, j))] = draw(edge_attrs)
    n = len(nodes)
    free = [p for p in itertools.combinations(range(n), 2) if frozenset(p) not in edges]
    if free:
        k = draw(st.integers(0, min(3, len(free))))
        for t in draw(st.lists(st.integers(0, len(free) - 1), min_size=k, max_size=k, unique=True)):
            edges[frozenset(free[t])] = draw(edge_attrs)
    ids = draw(st.lists(st.integers(1, id_pool), min_size=n, max_size=n, unique=True))
    order = draw(st.permutations(list(range(n))))
    elist = sorted(tuple(sorted(e)) for e in edges)
    elist = draw(st.permutations(elist))
    out_edges = []
    for a, b in elist:
        if draw(st.booleans()):
            a, b = b, a
        out_edges.append([ids[a], ids[b], dict(edges[frozenset((a, b))])])
    return {"nodes": [[ids[i], dict(nodes[i])] for i in order], "edges": out_edges}


@st.composite
def sub_pattern(draw, case, min_nodes=1, drop_edges=True):
    """A strict or non-strict sub-pattern of `case`: a drawn node subset (kept connected when possible by growing
    from a seed), its induced edges, optionally with some edges dropped (then only monomorphically contained)."""
    ids = [n for n, _ in case["nodes"]]
    g = to_nx(case)
    k = draw(st.integers(min(min_nodes, len(ids)), len(ids)))
    seed = draw(st.sampled_from(ids))
    chosen = [seed]
    while len(chosen) < k:
        frontier = sorted({y for x in chosen for y in g.adj[x]} - set(chosen))
        pool = frontier if frontier and draw(st.sampled_from([True, True, True, False])) else sorted(set(ids) - set(chosen))
        chosen.append(draw(st.sampled_from(pool)))
    keep = set(chosen)
    nodes = [[n, dict(a)] for n, a in case["nodes"] if n in keep]
    edges = [[u, v, dict(a)] for u, v, a in case["edges"] if u in keep and v in keep]
    dropped = 0
    if drop_edges and edges and draw(st.sampled_from([False, False, True])):
        kd = draw(st.integers(1, len(edges)))
        idx = set(draw(st.lists(st.integers(0, len(edges) - 1), min_size=kd, max_size=kd, unique=True)))
        edges = [e for i, e in enumerate(edges) if i not in idx]
        dropped = kd
    return {"nodes": nodes, "edges": edges}, dropped
