"""Helpers for C18: reference views built from the JSON case (independent of synkit's conversion code),
comparison keys for canonical graphs, case edits, deterministic shuffles and the `id` shim used for the
fault-injection / attribution runs."""
from __future__ import annotations

import builtins
import hashlib
import itertools
from contextlib import contextmanager

import networkx as nx

BIP_NODE_KEYS = ("kind", "label")
BIP_EDGE_KEYS = ("role", "stoich")
SP_NODE_KEYS = ("kind", "label")
SP_EDGE_KEYS = ("rules", "stoich_r", "stoich_p")

NAME_POOL = ["A", "B", "C", "D", "E", "F", "G2", "Hx", "Zz", "K9", "Ab", "Ba", "X", "Y0", "M", "Mm", "Q7", "Wa"]
ID_POOL = ["e1", "e10", "e2", "x_3", "a", "zz", "m5", "r_9", "q_1", "b7", "r_1", "r_2"]


# ----------------------------------------------------------------------------------------------------
# reference views
# ----------------------------------------------------------------------------------------------------
def species_of(rx):
    return sorted({s for r, p, _ in rx for s in list(r) + list(p)})


def ref_bipartite(rx, ids, include_stoich=True):
    """species -> reaction -> species; node names = species names / reaction ids."""
    G = nx.DiGraph()
    for s in species_of(rx):
        G.add_node(s, kind="species", label=s)
    for (r, p, rule), eid in zip(rx, ids):
        G.add_node(eid, kind="reaction", label=rule)
        for s, c in r.items():
            G.add_edge(s, eid, role="reactant", **({"stoich": int(c)} if include_stoich else {}))
        for s, c in p.items():
            G.add_edge(eid, s, role="product", **({"stoich": int(c)} if include_stoich else {}))
    return G


def ref_species(rx):
    """reactant -> product arcs; rules = set of contributing rule labels, stoich_r/p = minimum coefficient seen
    (as documented in hypergraph_to_species_graph)."""
    G = nx.DiGraph()
    for s in species_of(rx):
        G.add_node(s, kind="species", label=s)
    for r, p, rule in rx:
        for a, ca in r.items():
            for b, cb in p.items():
                if G.has_edge(a, b):
                    d = G[a][b]
                    d["rules"].add(rule)
                    d["stoich_r"] = min(d["stoich_r"], int(ca))
                    d["stoich_p"] = min(d["stoich_p"], int(cb))
                else:
                    G.add_edge(a, b, rules={rule}, stoich_r=int(ca), stoich_p=int(cb))
    return G


def _fz(x):
    if isinstance(x, (set, frozenset)):
        return ("set",) + tuple(sorted(map(repr, x)))
    if isinstance(x, dict):
        return ("dict",) + tuple(sorted((repr(k), repr(_fz(v))) for k, v in x.items()))
    if isinstance(x, (list, tuple)):
        return ("seq",) + tuple(_fz(v) for v in x)
    return x


def graph_key(G, nkeys, ekeys):
    """Hashable exact description of a labelled digraph restricted to the given attribute keys."""
    nodes = frozenset((n, tuple(repr(_fz(d.get(k))) for k in nkeys)) for n, d in G.nodes(data=True))
    arcs = frozenset((u, v, tuple(repr(_fz(d.get(k))) for k in ekeys)) for u, v, d in G.edges(data=True))
    return (nodes, arcs)


def key_str(key):
    nodes, arcs = key
    return f"nodes={sorted(nodes, key=repr)} arcs={sorted(arcs, key=repr)}"


def eq_keys(keys):
    keys = tuple(keys)

    def f(a, b):
        for k in keys:
            if a.get(k) != b.get(k):
                return False
        return True

    return f


def mapset(maps):
    return {frozenset(m.items()) for m in maps}


def partition(sets):
    return sorted((frozenset(s) for s in sets), key=lambda s: sorted(map(repr, s)))


# ----------------------------------------------------------------------------------------------------
# case manipulation
# ----------------------------------------------------------------------------------------------------
def rename(rx, mapping):
    return [[{mapping[s]: c for s, c in r.items()}, {mapping[s]: c for s, c in p.items()}, rule] for r, p, rule in rx]


def argsort_prio(prio, k):
    pr = list(prio)[:k] + [0] * max(0, k - len(prio))
    return sorted(range(k), key=lambda i: (pr[i], i))


def reorder(rx, prio):
    return [rx[i] for i in argsort_prio(prio, len(rx))]


def copy_rx(rx):
    return [[dict(r), dict(p), rule] for r, p, rule in rx]


def apply_edit(rx, edit):
    """Returns (new reaction list, kind) - kind 'noop' if the edit is not applicable (then rx is returned unchanged)."""
    rx = copy_rx(rx)
    if not edit:
        return rx, "none"
    kind = edit[0]
    i = edit[1] % len(rx)
    if kind == "coef":
        _, _, side, j, new = edit
        d = rx[i][side % 2]
        if not d:
            d = rx[i][1 - side % 2]
        names = sorted(d)
        s = names[j % len(names)]
        if d[s] == new:
            new = new % 3 + 1
        d[s] = new
        return rx, "coef"
    if kind == "move":
        _, _, side, j, tgt = edit
        d = rx[i][side % 2]
        if not d:
            d = rx[i][1 - side % 2]
        names = sorted(d)
        s = names[j % len(names)]
        if tgt == s or tgt in d:
            return rx, "noop"
        d[tgt] = d.pop(s)
        return rx, "move"
    if kind == "flip":
        rx[i][0], rx[i][1] = rx[i][1], rx[i][0]
        return rx, "flip"
    if kind == "rule":
        if rx[i][2] == edit[2]:
            return rx, "noop"
        rx[i][2] = edit[2]
        return rx, "rule"
    if kind == "dup":
        rx.append(copy_rx([rx[i]])[0])
        return rx, "dup"
    if kind == "drop":
        if len(rx) < 2:
            return rx, "noop"
        del rx[i]
        return rx, "drop"
    raise ValueError(edit)


def det_perm(items, *salt):
    """Deterministic pseudo-random order of `items` derived from a hash of the salt (no RNG involved)."""
    items = list(items)

    def h(x):
        return hashlib.blake2b(repr((salt, x)).encode(), digest_size=8).digest()

    return sorted(items, key=h)


def all_orders(k):
    return list(itertools.permutations(range(k)))


# ----------------------------------------------------------------------------------------------------
# id() shim
# ----------------------------------------------------------------------------------------------------
@contextmanager
def shadow_id(module, flags=None):
    """Shadow the builtin `id` inside `module` (a module global wins over the builtin).

    flags is None  -> every call returns a fresh, never repeated integer (an allocator that never hands out an
                      address twice - always legal).
    flags = [bool] -> call number k (0-based, cyclic in the list) returns, when flags[k] is true, the value returned
                      for the most recent earlier object instead of a fresh one: the address of an object that has
                      already been freed is handed to the new object.  Only legal when the earlier object is dead,
                      which the caller must argue (see C18.faultinj).
    Yields a dict with counters: calls, reused."""
    st = {"calls": 0, "reused": 0, "last": None, "next": 1 << 40}
    had = "id" in module.__dict__
    old = module.__dict__.get("id")

    def fake_id(obj):  # noqa: ARG001 - the identity of obj is deliberately not used
        k = st["calls"]
        st["calls"] += 1
        if flags and st["last"] is not None and flags[k % len(flags)]:
            st["reused"] += 1
            return st["last"]
        st["next"] += 16
        st["last"] = st["next"]
        return st["last"]

    setattr(module, "id", fake_id)
    try:
        yield st
    finally:
        if had:
            setattr(module, "id", old)
        else:
            delattr(module, "id")
        assert module.__dict__.get("id", builtins.id) is (old if had else builtins.id)


@contextmanager
def spy_id(module):
    """Record (without changing) the values `id` returns inside `module`."""
    log = []
    had = "id" in module.__dict__
    old = module.__dict__.get("id")

    def spy(obj):
        v = builtins.id(obj)
        log.append(v)
        return v

    setattr(module, "id", spy)
    try:
        yield log
    finally:
        if had:
            setattr(module, "id", old)
        else:
            delattr(module, "id")
