"""Rule-application helpers shared by C03, C04, C05, C11 (pruning part) and C14.

Input preparation (templates, reactor construction) necessarily uses SynKit; every *oracle* (keys, counters,
change signatures, isomorphism decisions) is RDKit / own code only.
"""
from __future__ import annotations

from functools import lru_cache

import networkx as nx

from vlib import chem_gen as cg
from vlib.oracles import iso

STRATEGIES = ["all", "comp", "bt"]

# Cost exclusion (one input): the full-ITS template of the reductive amination with H2 applied backwards has 144
# matches (molecular hydrogen in the rule disables the symmetry pruning) that each re-match 144 ways: 20 736
# equivalent outputs, about two minutes per application.  Checks skip that (template, kind, direction) and count it
# in their class histogram; the centre template of the same reaction stays in every search.
SLOW_KNOWN_TEMPLATES = {"6be7b01b70fcf765"}


def slow_known(template_rsmi, kind, invert):
    import hashlib

    if kind != "its" or not invert:
        return False
    rid = hashlib.blake2b(repr(cg.rxn_key(template_rsmi)).encode(), digest_size=8).hexdigest()
    return rid in SLOW_KNOWN_TEMPLATES


def mode_for(style):
    """Reactor mode matching the template's hydrogen style (an input precondition, see DESIGN.md §3)."""
    if style == "explicit":
        return dict(explicit_h=True, implicit_temp=False)
    return dict(explicit_h=False, implicit_temp=True)


def template_graph(rsmi, kind):
    from synkit.IO.chem_converter import rsmi_to_its

    return rsmi_to_its(rsmi, core=(kind == "rc"))


def make_reactor(substrate_smiles, tpl, invert, strategy, style, **kw):
    from synkit.Synthesis.Reactor.syn_reactor import SynReactor

    return SynReactor(substrate=substrate_smiles, template=tpl, invert=invert, strategy=strategy, **mode_for(style), **kw)


def raw_reactor(substrate_smiles, tpl, invert, strategy, style):
    """A second reactor of the same class whose matches are the *unpruned* SubgraphSearchEngine matches,
    injected through its (dataclass) fields - used to attribute differences to the symmetry pruning."""
    from synkit.Graph import has_wildcard_node, remove_wildcard_nodes
    from synkit.Graph.Hyrogen._misc import h_to_implicit, has_XH
    from synkit.Graph.Matcher.subgraph_matcher import SubgraphSearchEngine
    from synkit.Synthesis.Reactor.strategy import Strategy

    rx = make_reactor(substrate_smiles, tpl, invert, strategy, style)
    pattern = rx.rule.left.raw
    flag = False
    if has_XH(pattern):
        flag = True
        pattern = h_to_implicit(pattern)
    if has_wildcard_node(pattern):
        pattern = remove_wildcard_nodes(pattern)
    raw = SubgraphSearchEngine.find_subgraph_mappings(
        host=rx.graph.raw,
        pattern=pattern,
        node_attrs=["element", "charge"],
        edge_attrs=["order"],
        strategy=Strategy.from_string(strategy),
        threshold=None,
        pre_filter=False,
    )
    rx._flag_pattern_has_explicit_H = flag
    rx._mappings = list(raw)
    return rx, pattern, raw


def key_set(smarts_list):
    return {cg.rxn_key(s) for s in smarts_list}


# ------------------------------------------------------------------ reaction facts decided from the input
@lru_cache(maxsize=4096)
def reaction_facts(rsmi):
    """centre atoms, whether anything changes outside the centre, number of centre components per side,
    fully balanced (incl. H and charge) - all from the RDKit-only reference ITS."""
    G, H, its = cg.reference_its(rsmi)
    centre = set()
    changed = []
    for u, v, d in its.edges(data=True):
        if d["order"][0] != d["order"][1]:
            centre |= {u, v}
            changed.append((u, v))
    outside = any(
        n not in centre and (d["tG"][2] != d["tH"][2] or d["tG"][3] != d["tH"][3]) for n, d in its.nodes(data=True)
    )

    def ncomp(side):
        g = nx.Graph()
        g.add_nodes_from(centre)
        for u, v, d in its.edges(data=True):
            if u in centre and v in centre and d["order"][side] != 0:
                g.add_edge(u, v)
        # hydrogens folded by the reactor's pattern preparation do not count as own components
        heavy = [n for n in g if its.nodes[n]["tG"][0] != "H"]
        return nx.number_connected_components(g.subgraph(heavy)) if heavy else 0

    return dict(
        centre=frozenset(centre),
        n_changed=len(changed),
        outside_change=outside,
        centre_components=(ncomp(0), ncomp(1)),
        balanced=cg.is_balanced(rsmi),
        n_frag=(rsmi.split(">>")[0].count(".") + 1, rsmi.split(">>")[1].count(".") + 1),
    )


# ------------------------------------------------------------------ change signature (C03 clause c)
def _side_h_total(g, n, side):
    t = g.nodes[n]["typesGH"][side]
    h = t[2]
    for m in g[n]:
        if g.nodes[m]["typesGH"][side][0] == "H":
            o = g[n][m]["order"]
            if o[side] and o[side] > 0:
                h += 1
    return h


def change_signature(g, swap=False):
    """Graph of changed heavy-heavy bonds labelled with the order change, nodes labelled (element, dH_total)
    where H_total = hcount + explicit H neighbours on that side.  `g` is an ITS-like graph with typesGH and
    order pairs; swap=True reads it right-to-left (template applied backwards)."""
    a, b = (1, 0) if swap else (0, 1)
    sig = nx.Graph()
    heavy = [n for n, d in g.nodes(data=True) if d["typesGH"][0][0] != "H" and d["typesGH"][0][0] != "*"]
    hs = set(heavy)
    for n in heavy:
        dh = _side_h_total(g, n, b) - _side_h_total(g, n, a)
        if dh != 0:
            sig.add_node(n, label=(g.nodes[n]["typesGH"][0][0], dh))
    for u, v, d in g.edges(data=True):
        if u in hs and v in hs:
            o = d["order"]
            if o[a] != o[b]:
                for n in (u, v):
                    if n not in sig:
                        dh = _side_h_total(g, n, b) - _side_h_total(g, n, a)
                        sig.add_node(n, label=(g.nodes[n]["typesGH"][0][0], dh))
                sig.add_edge(u, v, label=round(float(o[b]) - float(o[a]), 3))
    return sig


def signatures_isomorphic(s1, s2):
    return iso.is_isomorphic(s1, s2, lambda x, y: x["label"] == y["label"], lambda x, y: x["label"] == y["label"])


def sig_summary(s):
    return dict(nodes=sorted(map(str, (d["label"] for _, d in s.nodes(data=True)))), edges=sorted(d["label"] for _, _, d in s.edges(data=True)))


# ------------------------------------------------------------------ reference embedding count (threshold precondition)
def embedding_count_exceeds(pattern, host, limit):
    """Own count of label-preserving embeddings (element, charge equal; host hcount >= pattern hcount; bond
    order equal), stopping at limit+1."""

    def node_ok(p, h):
        return p.get("element") == h.get("element") and p.get("charge") == h.get("charge") and h.get("hcount", 0) >= p.get("hcount", 0)

    def edge_ok(p, h):
        return p.get("order") == h.get("order")

    n = 0
    for _ in iso.monomorphisms(pattern, host, node_ok, edge_ok, limit=limit + 1):
        n += 1
        if n > limit:
            return True
    return False
