"""Corpus reactions, chemistry-preserving representation changes, and RDKit-level reference helpers.

Nothing here calls SynKit: parsing, keys, counters and the reference graphs are built on RDKit only, so a SynKit
bug cannot cancel itself out in an oracle.
"""
from __future__ import annotations

import json
import os
import pickle
import re
from collections import Counter
from functools import lru_cache

import networkx as nx
from rdkit import Chem, RDLogger

RDLogger.DisableLog("rdApp.*")

REPO = os.path.realpath(os.environ.get("VERIF_REPO", "/repo"))
_MAP_RE = re.compile(r":(\d+)\]")


def parse(smiles, sanitize=True):
    p = Chem.SmilesParserParams()
    p.removeHs = False
    p.sanitize = sanitize
    return Chem.MolFromSmiles(smiles, p)


# ------------------------------------------------------------------ keys and counters
def side_key(smiles):
    """Sorted tuple of canonical, unmapped, stereo-free, isotope-free fragment SMILES (explicit H folded)."""
    m = parse(smiles)
    if m is None:
        return None
    for a in m.GetAtoms():
        a.SetAtomMapNum(0)
        a.SetIsotope(0)
    Chem.RemoveStereochemistry(m)
    try:
        m = Chem.RemoveHs(m)
    except Exception:
        return None
    s = Chem.MolToSmiles(m, isomericSmiles=False)
    return tuple(sorted(s.split(".")))


def rxn_key(rsmi):
    r, p = rsmi.split(">>")
    return (side_key(r), side_key(p))


def side_formula(smiles):
    """(Counter of element counts incl. all hydrogens, total formal charge)."""
    m = parse(smiles)
    if m is None:
        return None
    c = Counter()
    q = 0
    for a in m.GetAtoms():
        c[a.GetSymbol()] += 1
        c["H"] += a.GetTotalNumHs()
        q += a.GetFormalCharge()
    if c["H"] == 0:
        del c["H"]
    return c, q


def is_balanced(rsmi):
    r, p = rsmi.split(">>")
    a, b = side_formula(r), side_formula(p)
    return a is not None and b is not None and a == b


# ------------------------------------------------------------------ reference graphs (RDKit only)
def side_graph(smiles):
    """nx.Graph keyed by atom-map number with element, aromatic, hcount, charge; bonds with order."""
    m = parse(smiles)
    g = nx.Graph()
    for a in m.GetAtoms():
        g.add_node(
            a.GetAtomMapNum(),
            element=a.GetSymbol(),
            aromatic=a.GetIsAromatic(),
            hcount=a.GetTotalNumHs(),
            charge=a.GetFormalCharge(),
        )
    for b in m.GetBonds():
        g.add_edge(b.GetBeginAtom().GetAtomMapNum(), b.GetEndAtom().GetAtomMapNum(), order=b.GetBondTypeAsDouble())
    return g


def reference_its(rsmi):
    """Reference ITS built from the definition: union of nodes/edges, order pairs, difference."""
    r, p = rsmi.split(">>")
    G, H = side_graph(r), side_graph(p)
    its = nx.Graph()
    for n in set(G) | set(H):
        tg = tuple(G.nodes[n][k] for k in ("element", "aromatic", "hcount", "charge")) if n in G else None
        th = tuple(H.nodes[n][k] for k in ("element", "aromatic", "hcount", "charge")) if n in H else None
        its.add_node(n, tG=tg, tH=th)
    for u, v in set(map(frozenset, G.edges)) | set(map(frozenset, H.edges)):
        og = G.edges[u, v]["order"] if G.has_edge(u, v) else 0
        oh = H.edges[u, v]["order"] if H.has_edge(u, v) else 0
        its.add_edge(u, v, order=(og, oh), standard_order=og - oh)
    return G, H, its


# ------------------------------------------------------------------ corpus
def _well_formed(rsmi):
    try:
        r, p = rsmi.split(">>")
        mr, mp = parse(r), parse(p)
        if mr is None or mp is None:
            return False
        a = [x.GetAtomMapNum() for x in mr.GetAtoms()]
        b = [x.GetAtomMapNum() for x in mp.GetAtoms()]
        if 0 in a or 0 in b or len(set(a)) != len(a) or len(set(b)) != len(b) or set(a) != set(b):
            return False
        er = {x.GetAtomMapNum(): x.GetSymbol() for x in mr.GetAtoms()}
        ep = {x.GetAtomMapNum(): x.GetSymbol() for x in mp.GetAtoms()}
        return er == ep
    except Exception:
        return False


def hydrogen_style(rsmi):
    """'implicit' (no H atoms), 'explicit' (H atoms present and no heavy atom changes its implicit H count),
    'mixed' otherwise.  Decided from the input alone."""
    r, p = rsmi.split(">>")
    mr, mp = parse(r), parse(p)
    has_h = any(a.GetAtomicNum() == 1 for m in (mr, mp) for a in m.GetAtoms())
    hr = {a.GetAtomMapNum(): a.GetTotalNumHs() for a in mr.GetAtoms() if a.GetAtomicNum() != 1}
    hp = {a.GetAtomMapNum(): a.GetTotalNumHs() for a in mp.GetAtoms() if a.GetAtomicNum() != 1}
    changed = any(hr[k] != hp.get(k) for k in hr)
    if not has_h:
        return "implicit"
    return "mixed" if changed else "explicit"


@lru_cache(maxsize=None)
def corpus():
    """[(rsmi, source, style)] - the well-formed (sanitisable, balanced atom set, fully mapped) corpus reactions."""
    out = []
    with open(os.path.join(REPO, "Data", "ecoli.json.gz")) as fh:
        for d in json.load(fh):
            out.append((d["smart"], "ecoli"))
    with open(os.path.join(REPO, "Data", "Testcase", "graph.pkl.gz"), "rb") as fh:
        for d in pickle.load(fh):
            out.append((d["smart"], "graphpkl"))
    res = []
    for rsmi, src in out:
        if _well_formed(rsmi):
            res.append((rsmi, src, hydrogen_style(rsmi)))
    return tuple(res)


def corpus_size():
    return len(corpus())


# ------------------------------------------------------------------ representation changes
def _perm_from_keys(keys, n):
    """Permutation of range(n) = stable argsort of the first n generated integer keys (cycled if short)."""
    ks = [keys[i % len(keys)] if keys else 0 for i in range(n)]
    return sorted(range(n), key=lambda i: (ks[i], i))


def renumber_maps(rsmi, keys, offset=0):
    """Apply one permutation of the atom-map numbers to both sides (textual, chemistry untouched)."""
    maps = sorted({int(x) for x in _MAP_RE.findall(rsmi)})
    perm = _perm_from_keys(keys, len(maps))
    new = {m: maps[perm[i]] + offset for i, m in enumerate(maps)}
    return _MAP_RE.sub(lambda mo: f":{new[int(mo.group(1))]}]", rsmi), new


def reorder_side(smiles, keys):
    """Re-order the atoms of one side (RenumberAtoms) and write non-canonical SMILES: changes atom order,
    ring-closure digits and branch order."""
    m = parse(smiles)
    perm = _perm_from_keys(keys, m.GetNumAtoms())
    m2 = Chem.RenumberAtoms(m, perm)
    return Chem.MolToSmiles(m2, canonical=False)


def shuffle_fragments(smiles, keys):
    frags = smiles.split(".")
    perm = _perm_from_keys(keys, len(frags))
    return ".".join(frags[i] for i in perm)


def variant(rsmi, spec):
    """spec = {'maps': keys|None, 'atoms': keys|None, 'frags': keys|None, 'reverse': bool}.
    Returns the rewritten reaction; raises AssertionError if the rewrite is not an identity on the chemistry
    (checked here so a generator bug cannot masquerade as a SynKit bug)."""
    out = rsmi
    if spec.get("maps"):
        out, _ = renumber_maps(out, spec["maps"], spec.get("offset", 0))
    r, p = out.split(">>")
    if spec.get("atoms"):
        r, p = reorder_side(r, spec["atoms"]), reorder_side(p, spec["atoms"][::-1])
    if spec.get("frags"):
        r, p = shuffle_fragments(r, spec["frags"]), shuffle_fragments(p, spec["frags"][::-1])
    if spec.get("reverse"):
        r, p = p, r
    out = f"{r}>>{p}"
    k0 = rxn_key(rsmi)
    k1 = rxn_key(out)
    if spec.get("reverse"):
        k1 = (k1[1], k1[0])
    assert k0 == k1 and k0[0] is not None, f"variant changed the chemistry: {rsmi} -> {out}"
    return out


def variant_spec_strategy(maps=True, atoms=True, frags=True, reverse=False):
    from hypothesis import strategies as st

    keys = st.lists(st.integers(0, 10**6), min_size=4, max_size=24)
    opt = lambda on: st.one_of(st.none(), keys) if on else st.none()  # noqa: E731
    return st.fixed_dictionaries(
        dict(maps=opt(maps), atoms=opt(atoms), frags=opt(frags), reverse=st.booleans() if reverse else st.just(False))
    )


def unmapped(smiles, canonical=True):
    """Atom maps stripped, explicit hydrogens folded.  canonical=False keeps the atom and fragment order of the
    input writing (so a rewriting of a mapped reaction carries over to the substrate string)."""
    m = parse(smiles)
    for a in m.GetAtoms():
        a.SetAtomMapNum(0)
    m = Chem.RemoveHs(m)
    if canonical:
        return Chem.MolToSmiles(m)
    out = Chem.MolToSmiles(m, canonical=False)
    assert side_key(out) == side_key(smiles), f"unmapped(canonical=False) changed the molecule: {smiles} -> {out}"
    return out
