"""C11, rule-application part: the symmetry pruning in SynReactor.mappings must not change the set of distinct
reactions compared with gluing every raw SubgraphSearchEngine match."""
from __future__ import annotations

from hypothesis import strategies as st

from vlib import chem_gen as cg
from vlib import rx_apply as rx
from vlib.runner import Violation


def body_pruning(case, rec):
    ti, si = case["tpl"], case["sub"]
    kind, invert, strategy = case["kind"], case["invert"], case["strategy"]
    t0, _, style = cg.corpus()[ti]
    if rx.slow_known(t0, kind, invert):
        rec.label("excluded:slow-h2-full-its-backward")
        return
    if case.get("tmaps"):
        t0 = cg.variant(t0, dict(maps=case["tmaps"]))
    s_rsmi = cg.corpus()[si][0]
    r, p = s_rsmi.split(">>")
    sub = cg.unmapped(p if invert else r)
    tpl = rx.template_graph(t0, kind)
    pruned = rx.make_reactor(sub, tpl, invert, strategy, style)
    kp = rx.key_set(pruned.smarts_list)
    rawr, pattern, raw = rx.raw_reactor(sub, rx.template_graph(t0, kind), invert, strategy, style)
    kr = rx.key_set(rawr.smarts_list)
    removed = len(raw) - len(pruned.mappings)
    rec.nt(removed >= 1)
    rec.label("pruning-removed-matches" if removed >= 1 else "pruning-noop", f"style={style}", f"kind={kind}")
    rec.show(dict(template=t0[:140], substrate=sub[:100], kind=kind, invert=invert, strategy=strategy, raw_matches=len(raw), kept=len(pruned.mappings), results=len(kr)))
    # sub-list clause on the real call site
    ids = [id(m) for m in raw]
    if len(pruned.mappings) > len(raw) or any(m not in raw for m in pruned.mappings):
        raise Violation("pruned-not-sublist", f"pruned matches are not a sub-list of the raw matches ({len(pruned.mappings)} of {len(raw)})")
    if kp != kr:
        raise Violation(
            "pruning-changes-results",
            f"tpl=corpus[{ti}] {kind} sub=corpus[{si}] {'bw' if invert else 'fw'} {strategy}: {len(kr)} distinct reactions from {len(raw)} raw matches, "
            f"{len(kp)} after pruning to {len(pruned.mappings)} matches (lost {len(kr - kp)}, gained {len(kp - kr)})",
        )


def enum_pruning_own(tier):
    """Every eligible corpus reaction on its own substrate, both directions, strategy all; centre templates in the
    quick tier, centre and full ITS in the thorough tier (exhaustive over the corpus)."""
    from props.C03 import eligible

    for i in eligible():
        for kind in (("rc",) if tier == "quick" else ("rc", "its")):
            for invert in (False, True):
                yield dict(tpl=i, sub=i, kind=kind, invert=invert, strategy="all", tmaps=None)


def strat_pruning(tier):
    from props.C03 import centre_classes, eligible

    el = eligible()
    cls = centre_classes()
    keys = st.lists(st.integers(0, 10**6), min_size=4, max_size=24)

    def pick_sub(t):
        mates = cls.get(t, [])
        opts = [st.just(t), st.just(t)]
        if mates:
            opts += [st.sampled_from(mates)] * 3
        opts.append(st.sampled_from(el))
        return st.one_of(*opts)

    return st.sampled_from(el).flatmap(
        lambda t: st.fixed_dictionaries(
            dict(tpl=st.just(t), sub=pick_sub(t), kind=st.sampled_from(["rc", "rc", "rc", "its"]), invert=st.booleans(),
                 strategy=st.sampled_from(rx.STRATEGIES), tmaps=st.one_of(st.none(), keys))
        )
    )


# ------------------------------------------------------------------ attribution predicate for the recorded finding
def _rule_orbits(rc, nodes):
    """True orbits of `nodes` under label-preserving automorphisms of the rule graph (both-side atom types,
    (before, after) bond orders), computed pairwise with the brute-force matcher."""
    import networkx as nx

    from vlib.oracles import iso

    def lab(d):
        t = d["typesGH"]
        return (tuple(t[0][:4]), tuple(t[1][:4]))

    g = nx.Graph()
    for n, d in rc.nodes(data=True):
        g.add_node(n, lab=lab(d))
    for u, v, d in rc.edges(data=True):
        g.add_edge(u, v, lab=tuple(d["order"]))
    nodes = list(nodes)
    parent = {n: n for n in nodes}

    def find(x):
        while parent[x] != x:
            x = parent[x]
        return x

    for i, u in enumerate(nodes):
        for v in nodes[i + 1 :]:
            if find(u) == find(v) or g.nodes[u]["lab"] != g.nodes[v]["lab"]:
                continue
            g1, g2 = g.copy(), g.copy()
            g1.nodes[u]["lab"] = ("PIN",)
            g2.nodes[v]["lab"] = ("PIN",)
            if iso.is_isomorphic(g1, g2, lambda a, b: a["lab"] == b["lab"], lambda a, b: a["lab"] == b["lab"]):
                parent[find(u)] = find(v)
    cl = {}
    for n in nodes:
        cl.setdefault(find(n), set()).add(n)
    return list(cl.values())


def left_only_orbits(case, v, m):
    """The recorded pruning finding applies iff the orbit estimate used by SynReactor.mappings (computed on the
    LEFT pattern only) (i) puts two pattern atoms into one class although no automorphism of the whole rule
    exchanges them, or (ii) has a class that meets the anchor component without lying inside it (such classes
    are dropped from the signature altogether)."""
    from synkit.Graph.Matcher.auto_est import AutoEst

    ti, si = case["tpl"], case["sub"]
    t0, _, style = cg.corpus()[ti]
    if case.get("tmaps"):
        t0 = cg.variant(t0, dict(maps=case["tmaps"]))
    s_rsmi = cg.corpus()[si][0]
    r, p = s_rsmi.split(">>")
    sub = cg.unmapped(p if case["invert"] else r)
    rawr, pattern, raw = rx.raw_reactor(sub, rx.template_graph(t0, case["kind"]), case["invert"], case["strategy"], style)
    est = AutoEst(pattern, node_attrs=["element", "charge", "aromatic", "hcount"], edge_attrs=["order"])
    est.fit()
    anchor = set(est.anchor_component or ())
    orbits = [set(o) for o in est.orbits]
    if any(o & anchor and not o <= anchor for o in orbits):
        return True
    true_orbits = _rule_orbits(rawr.rule.rc.raw, list(pattern.nodes))
    cls = {}
    for k, o in enumerate(true_orbits):
        for n in o:
            cls[n] = k
    return any(len({cls[n] for n in o}) > 1 for o in orbits if len(o) > 1)
