"""A legal but adversarial id(): unique among objects alive at the same time, but a new object may receive the
number of an object that has already died (what CPython's allocator does when an address is recycled).  Installed
into the *module globals* of tested modules from the harness (no repository change); choices come from the
generated case, and gc.collect() before every decision makes "dead" independent of GC timing."""
from __future__ import annotations

import builtins
import gc
import sys
import weakref


class AdversarialId:
    def __init__(self, choices):
        self.choices = list(choices)
        self.k = 0
        self.live = {}
        self.dead = []
        self.next = 10**9
        self.reused = 0
        self.calls = 0

    def __call__(self, obj):
        self.calls += 1
        real = builtins.id(obj)
        if real in self.live:
            return self.live[real]
        gc.collect()
        take = bool(self.choices[self.k % len(self.choices)]) if self.choices else False
        self.k += 1
        if take and self.dead:
            fake = self.dead.pop(0)
            self.reused += 1
        else:
            fake = self.next
            self.next += 1
        try:
            weakref.finalize(obj, self._died, real, fake)
        except TypeError:
            return real
        self.live[real] = fake
        return fake

    def _died(self, real, fake):
        self.live.pop(real, None)
        self.dead.append(fake)


class installed:
    """Context manager: shadow `id` in the globals of every loaded module whose name starts with one of prefixes."""

    def __init__(self, adv, prefixes=("synkit.",)):
        self.adv = adv
        self.prefixes = tuple(prefixes)
        self.saved = []

    def __enter__(self):
        for name, mod in list(sys.modules.items()):
            if mod is None or not name.startswith(self.prefixes):
                continue
            d = getattr(mod, "__dict__", None)
            if d is None:
                continue
            self.saved.append((mod, "id" in d, d.get("id")))
            setattr(mod, "id", self.adv)
        return self.adv

    def __exit__(self, *exc):
        for mod, had, old in self.saved:
            if had:
                setattr(mod, "id", old)
            else:
                try:
                    delattr(mod, "id")
                except AttributeError:
                    pass
        return False
