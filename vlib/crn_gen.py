"""Reaction-network cases (JSON) and builders.  Species names follow the documented label shape
[A-Z][A-Za-z0-9]*; rule labels contain no whitespace, '|', '=' or '>'."""
from __future__ import annotations

import itertools

from hypothesis import strategies as st

SPECIES = ["A", "B", "C", "D", "E", "F", "G2", "Hx"]
RULES = ["r", "q", "R1"]


def side_strategy(species, max_coef=3, max_terms=3, min_terms=0):
    return st.dictionaries(st.sampled_from(species), st.integers(1, max_coef), min_size=min_terms, max_size=max_terms)


def rxn_strategy(species, max_coef=3, allow_empty_side=True, rules=RULES, max_terms=3):
    lo = 0 if allow_empty_side else 1
    return (
        st.tuples(
            side_strategy(species, max_coef, max_terms, lo),
            side_strategy(species, max_coef, max_terms, lo),
            st.sampled_from(rules),
        )
        .filter(lambda t: t[0] or t[1])
        .map(list)
    )


def net_strategy(max_species=6, max_rxn=6, max_coef=3, allow_empty_side=True, min_rxn=1, rules=RULES, max_terms=3):
    """{'rx': [[reactants, products, rule], ...]}; species drawn from a prefix of SPECIES."""
    return st.integers(2, max_species).flatmap(
        lambda k: st.lists(
            rxn_strategy(SPECIES[:k], max_coef, allow_empty_side, rules, max_terms), min_size=min_rxn, max_size=max_rxn
        )
    ).map(lambda rx: {"rx": rx})


def build(case, explicit_ids=None):
    from synkit.CRN.Hypergraph.hypergraph import CRNHyperGraph

    H = CRNHyperGraph()
    for i, (r, p, rule) in enumerate(case["rx"]):
        eid = explicit_ids[i] if explicit_ids else None
        H.add_rxn(dict(r), dict(p), rule=rule, edge_id=eid)
    return H


def sides_over(species, coefs):
    """All multisets over `species` with coefficients in `coefs` (0 allowed = absent)."""
    for combo in itertools.product(coefs, repeat=len(species)):
        yield {s: c for s, c in zip(species, combo) if c}


def enum_reactions(species, coefs, allow_empty_side=True, allow_trivial=True):
    sides = list(sides_over(species, coefs))
    for r in sides:
        for p in sides:
            if not r and not p:
                continue
            if not allow_empty_side and (not r or not p):
                continue
            if not allow_trivial and r == p:
                continue
            yield [r, p, "r"]


def enum_networks(species, coefs, max_rxn, allow_empty_side=True, allow_trivial=True, ordered=False):
    rx = list(enum_reactions(species, coefs, allow_empty_side, allow_trivial))
    for k in range(1, max_rxn + 1):
        it = itertools.product(rx, repeat=k) if ordered else itertools.combinations_with_replacement(rx, k)
        for combo in it:
            yield {"rx": [list(map(lambda x: dict(x) if isinstance(x, dict) else x, c)) for c in combo]}


def rx_str(case):
    def side(d):
        return " + ".join((k if v == 1 else f"{v}{k}") for k, v in sorted(d.items())) or "0"

    return [f"{side(r)} >> {side(p)} ({rule})" for r, p, rule in case["rx"]]


# ------------------------------------------------------------------ networks reached by in-place edits
def edit_ops_strategy(species, max_coef=2, rules=("r",), max_ops=5, allow_empty_side=True):
    rxn = rxn_strategy(list(species), max_coef, allow_empty_side, list(rules), 2)
    op = st.one_of(
        st.tuples(st.just("swap"), st.integers(0, 7), rxn).map(list),
        st.tuples(st.just("swap"), st.integers(0, 7), rxn).map(list),
        st.tuples(st.just("add"), rxn).map(list),
        st.tuples(st.just("rm"), st.integers(0, 7)).map(list),
    )
    return st.lists(op, min_size=1, max_size=max_ops)


def edited_net_strategy(max_species=4, max_rxn=4, max_coef=2, rules=("r",), allow_empty_side=True):
    """{'rx': initial reactions, 'ops': in-place edits}: the network under test is the *edited object*."""
    sp = SPECIES[:max_species]
    rxn = rxn_strategy(sp, max_coef, allow_empty_side, list(rules), 2)
    return st.fixed_dictionaries(dict(rx=st.lists(rxn, min_size=2, max_size=max_rxn), ops=edit_ops_strategy(sp, max_coef, rules, 5, allow_empty_side)))


def build_edited(case, touch):
    """Build the initial network, call touch(H) (an analysis that may leave state behind), apply the edits in place
    calling touch(H) after every second edit, and return (H, final reaction list in H.edges order).
    'swap' = remove one reaction and add another (often count-preserving)."""
    H = build({"rx": case["rx"]})
    model = {e.id: [dict(e.reactants.items()), dict(e.products.items()), e.rule] for e in H.edge_list()}
    touch(H)
    preserved = False
    for k, op in enumerate(case["ops"]):
        before = (len(H.species), len(H.edges))
        if op[0] == "swap" and model:
            eid = sorted(model)[op[1] % len(model)]
            H.remove_rxn(eid)
            del model[eid]
            r, p, rule = op[2]
            e = H.add_rxn(dict(r), dict(p), rule=rule)
            model[e.id] = [dict(r), dict(p), rule]
        elif op[0] == "add":
            r, p, rule = op[1]
            e = H.add_rxn(dict(r), dict(p), rule=rule)
            model[e.id] = [dict(r), dict(p), rule]
        elif op[0] == "rm" and len(model) > 1:
            eid = sorted(model)[op[1] % len(model)]
            H.remove_rxn(eid)
            del model[eid]
        preserved |= before == (len(H.species), len(H.edges)) and op[0] == "swap"
        if k % 2 == 1:
            touch(H)
    final = [model[eid] for eid in H.edges]
    return H, final, preserved


def geometric_nets():
    """Chains c_i X_i -> d_i X_{i+1} with coefficients 1..3, open (source and sink: every steady flux is a geometric
    progression, max/min up to 3^7) or closed into a cycle (the positive conservation law is one), optionally with
    every step reversible, species and reactions in generated order. Reaches the verdicts' numerical scale handling."""
    sp = SPECIES

    def build(coefs, mode, rev, perm_seed):
        k = len(coefs)
        names = list(sp[: k + 1])
        rx = []
        for i, (c, d) in enumerate(coefs):
            a, b = names[i], names[(i + 1) % k] if mode == "cycle" else names[i + 1]
            if a == b:
                continue
            rx.append([{a: c}, {b: d}, "r"])
            if rev:
                rx.append([{b: d}, {a: c}, "r"])
        if mode == "open":
            rx.append([{}, {names[0]: coefs[0][0]}, "q"])
            rx.append([{names[k]: coefs[-1][1]}, {}, "q"])
        rx = [rx[i] for i in perm_seed(list(range(len(rx))))] if rx else rx
        return {"rx": rx}

    return st.builds(
        build,
        st.lists(st.tuples(st.integers(1, 3), st.integers(1, 3)), min_size=3, max_size=7),
        st.sampled_from(["open", "open", "cycle", "closed"]),
        st.booleans(),
        st.randoms(use_true_random=False).map(lambda r: (lambda xs: r.sample(xs, len(xs)))),
    )
