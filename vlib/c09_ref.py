"""Reference helpers for C09 (reaction normal forms and equivalence checks).  RDKit + own code only, no SynKit.

* labelled ITS / reaction-centre graphs and an isomorphism decision on them (vlib.oracles.iso);
* k-round colour refinement written from the definition (attribution predicate for the wl back-end);
* product-side map transpositions and textual charge / hydrogen edits for unbalanced variants;
* the input lists (corpus + a small vendored list of hand-written mapped reactions), shortest first so that
  Hypothesis shrinks towards small reactions.
"""
from __future__ import annotations

import re
from functools import lru_cache

import networkx as nx

from vlib import chem_gen as cg
from vlib.oracles import iso

NODE_KEYS = ("element", "aromatic", "charge", "hcount")
EDGE_KEYS = ("order",)

# hand-written, fully mapped, same atoms on both sides (checked at import by reactions())
VENDORED = (
    "[CH3:1][CH2:2][OH:3]>>[CH2:1]=[CH2:2].[OH2:3]",
    "[CH3:1][CH:2]=[O:3]>>[CH3:1][CH2:2][OH:3]",
    "[CH3:1][O-:2].[CH3:3][I:4]>>[CH3:1][O:2][CH3:3].[I-:4]",
    "[CH3:1][CH2:2][Br:3].[OH-:4]>>[CH3:1][CH2:2][OH:4].[Br-:3]",
    "[CH3:1][C:2](=[O:3])[CH3:4]>>[CH2:1]=[C:2]([OH:3])[CH3:4]",
    "[CH3:1][C:2](=[O:3])[OH:4].[NH3:5]>>[CH3:1][C:2](=[O:3])[O-:4].[NH4+:5]",
    "[CH3:1][CH:2]=[O:3].[H:4][H:5]>>[CH3:1][CH:2]([H:4])[O:3][H:5]",
    "[CH3:1][C:2](=[O:3])[OH:4].[CH3:5][OH:6]>>[CH3:1][C:2](=[O:3])[O:6][CH3:5].[OH2:4]",
    "[CH3:1][CH2:2][CH2:3][CH2:4][OH:5].[CH3:6][CH2:7][CH2:8][CH2:9][NH2:10]"
    ">>[CH3:1][CH2:2][CH2:3][CH2:4][NH:10][CH2:9][CH2:8][CH2:7][CH3:6].[OH2:5]",
    "[CH2:1]=[CH:2][CH:3]=[CH2:4].[CH2:5]=[CH2:6]>>[CH2:1]1[CH:2]=[CH:3][CH2:4][CH2:5][CH2:6]1",
    "[CH3:1][CH2:2][CH2:3][CH2:4][OH:5].[CH3:6][CH2:7][CH2:8][CH2:9][NH2:10].[CH3:11][C:12](=[O:13])[Cl:14]"
    ">>[CH3:1][CH2:2][CH2:3][CH2:4][O:5][C:12]([CH3:11])=[O:13].[CH3:6][CH2:7][CH2:8][CH2:9][NH2:10].[ClH:14]",
    "[CH3:1][CH2:2][CH2:3][CH2:4][C:5](=[O:6])[OH:7].[CH3:8][CH2:9][CH2:10][CH2:11][NH2:12]"
    ">>[CH3:1][CH2:2][CH2:3][CH2:4][C:5](=[O:6])[NH:12][CH2:11][CH2:10][CH2:9][CH3:8].[OH2:7]",
    "[cH:1]1[cH:2][cH:3][cH:4][cH:5][c:6]1[Br:7].[OH:8][B:9]([OH:10])[c:11]1[cH:12][cH:13][cH:14][cH:15][cH:16]1"
    ">>[cH:1]1[cH:2][cH:3][cH:4][cH:5][c:6]1[c:11]1[cH:12][cH:13][cH:14][cH:15][cH:16]1.[Br:7][B:9]([OH:8])[OH:10]",
)


@lru_cache(maxsize=None)
def reactions():
    """Vendored + corpus reactions, shortest first (stable)."""
    for r in VENDORED:
        assert cg._well_formed(r), f"vendored reaction is not well formed: {r}"
    allr = list(VENDORED) + [r for r, _, _ in cg.corpus()]
    seen, out = set(), []
    for r in sorted(allr, key=lambda s: (len(s), s)):
        if r not in seen:
            seen.add(r)
            out.append(r)
    return tuple(out)


# ------------------------------------------------------------------ automorphisms of the reactant graph
@lru_cache(maxsize=4096)
def reactants_rigid(rsmi):
    """True iff the reactant graph (element, aromatic, charge, hcount; order) has only the identity
    automorphism, i.e. all reactant atoms are distinguishable."""
    g = cg.side_graph(rsmi.split(">>")[0])
    autos = iso.isomorphisms(g, g, iso.eq_on(NODE_KEYS), iso.eq_on(EDGE_KEYS), limit=2)
    return sum(1 for _ in autos) == 1


@lru_cache(maxsize=None)
def rigid_reactions():
    return tuple(r for r in reactions() if reactants_rigid(r))


# ------------------------------------------------------------------ colour refinement (own, from the definition)
def refine_colours(g, rounds):
    """k rounds of 1-dimensional Weisfeiler-Lehman refinement; initial colour = NODE_KEYS, a round replaces the
    colour of v by (colour(v), sorted multiset of (bond order, colour(u)) over neighbours u).  Colours are
    renamed to small integers after every round (canonically, by sorted repr)."""
    col = {n: repr(tuple(g.nodes[n][k] for k in NODE_KEYS)) for n in g}
    names = {c: i for i, c in enumerate(sorted(set(col.values())))}
    col = {n: names[c] for n, c in col.items()}
    for _ in range(rounds):
        new = {n: (col[n], tuple(sorted((g.edges[n, u]["order"], col[u]) for u in g[n]))) for n in g}
        names = {c: i for i, c in enumerate(sorted(set(new.values())))}
        col = {n: names[c] for n, c in new.items()}
    return col


def has_colour_tie(rsmi, rounds):
    """Two reactant atoms share their colour after `rounds` refinement rounds."""
    g = cg.side_graph(rsmi.split(">>")[0])
    col = refine_colours(g, rounds)
    return len(set(col.values())) < g.number_of_nodes()


# ------------------------------------------------------------------ labelled ITS / centre
def _with_neighbours(side, n):
    if n not in side:
        return None
    d = side.nodes[n]
    return (d["element"], d["aromatic"], d["hcount"], d["charge"], tuple(sorted(side.nodes[u]["element"] for u in side[n])))


def compose_its(G, H):
    """ITS from the definition: union of atoms and bonds (keyed by atom map); node label 'lab' = per-side
    (element, aromatic, hcount, charge, sorted neighbour elements), 'core' = the same without the neighbours;
    edge label 'order' = (order in reactants, order in products), 0 where the bond is absent."""
    its = nx.Graph()
    for n in sorted(set(G) | set(H)):
        lab = (_with_neighbours(G, n), _with_neighbours(H, n))
        its.add_node(
            n,
            lab=lab,
            core=tuple(None if t is None else t[:4] for t in lab),
            element=(G.nodes[n] if n in G else H.nodes[n])["element"],
        )
    for e in sorted(set(map(frozenset, G.edges)) | set(map(frozenset, H.edges)), key=sorted):
        u, v = sorted(e)
        og = G.edges[u, v]["order"] if G.has_edge(u, v) else 0
        oh = H.edges[u, v]["order"] if H.has_edge(u, v) else 0
        its.add_edge(u, v, order=(og, oh))
    return its


def labelled_its(rsmi):
    r, p = rsmi.split(">>")
    return compose_its(cg.side_graph(r), cg.side_graph(p))


def centre_of(its):
    """Reaction centre by definition: the bonds whose order differs between the sides plus every H-H bond, and
    the atoms they touch (with their ITS labels)."""
    rc = nx.Graph()
    for u, v, d in its.edges(data=True):
        og, oh = d["order"]
        hh = its.nodes[u]["element"] == "H" and its.nodes[v]["element"] == "H"
        if og != oh or hh:
            for n in (u, v):
                rc.add_node(n, **its.nodes[n])
            rc.add_edge(u, v, order=d["order"])
    return rc


def iso_labelled(a, b, node_key="lab"):
    return iso.is_isomorphic(a, b, iso.eq_on((node_key,)), iso.eq_on(("order",)))


def iso_unlabelled(a, b):
    return iso.is_isomorphic(a, b, lambda x, y: True, lambda x, y: True)


# ------------------------------------------------------------------ adversarial re-mappings
_MAP_TOKEN = re.compile(r":(\d+)\]")


def swap_product_maps(rsmi, a, b):
    """Transpose the map numbers a and b on the product side only."""
    r, p = rsmi.split(">>")
    sw = {a: b, b: a}
    p2 = _MAP_TOKEN.sub(lambda m: f":{sw.get(int(m.group(1)), int(m.group(1)))}]", p)
    return f"{r}>>{p2}"


@lru_cache(maxsize=None)
def swap_candidates():
    """[(rsmi, a, b, same_shape)]: all unordered pairs of same-element reaction-centre atoms of every input
    reaction; same_shape = the centre after transposing a and b on the product side is still isomorphic to the
    original centre as an unlabelled graph (the adversarial class)."""
    out = []
    for rsmi in reactions():
        r, p = rsmi.split(">>")
        G, H = cg.side_graph(r), cg.side_graph(p)
        rc = centre_of(compose_its(G, H))
        nodes = sorted(rc.nodes)
        for i, a in enumerate(nodes):
            for b in nodes[i + 1 :]:
                if rc.nodes[a]["element"] == rc.nodes[b]["element"]:
                    H2 = nx.relabel_nodes(H, {a: b, b: a}, copy=True)
                    rc2 = centre_of(compose_its(G, H2))
                    out.append((rsmi, a, b, iso_unlabelled(rc, rc2)))
    return tuple(out)


# ------------------------------------------------------------------ unbalanced variants
# textual edits of one bracket atom; each changes the hydrogen count and/or the formal charge of one atom and
# nothing else.  An edit whose result does not sanitise is rejected by the caller.
ATOM_EDITS = (
    (r"\[O-:", "[OH:"),
    (r"\[O-:", "[O:"),
    (r"\[OH:", "[O-:"),
    (r"\[OH:", "[O:"),
    (r"\[OH2:", "[OH3+:"),
    (r"\[O:", "[O-:"),
    (r"\[O:", "[O+:"),
    (r"\[CH3:", "[CH2:"),
    (r"\[CH2:", "[CH:"),
    (r"\[CH2:", "[CH2-:"),
    (r"\[CH:", "[CH2:"),
    (r"\[cH:", "[c:"),
    (r"\[C:", "[C+:"),
    (r"\[NH2:", "[NH3+:"),
    (r"\[NH2:", "[NH:"),
    (r"\[NH3\+:", "[NH2:"),
    (r"\[NH3\+:", "[NH3:"),
    (r"\[NH:", "[NH2+:"),
    (r"\[N:", "[N+:"),
    (r"\[N\+:", "[N:"),
    (r"\[n:", "[nH+:"),
    (r"\[SH:", "[S-:"),
    (r"\[S-:", "[S:"),
    (r"\[S:", "[S+:"),
    (r"\[P:", "[P+:"),
    (r"\[O-\]", "[OH]"),
    (r"\[Na\+\]", "[Na]"),
    (r"\[Cl-\]", "[Cl]"),
)


def apply_edit(rsmi, edit):
    """edit = None | {'kind':'delete'|'duplicate', 'side':0|1, 'frag':k} | {'kind':'atom','side':s,'rule':i,'occ':j}.
    Returns (new reaction smiles, applied: bool)."""
    if not edit:
        return rsmi, False
    sides = rsmi.split(">>")
    s = edit["side"] % 2
    if edit["kind"] in ("delete", "duplicate"):
        frags = sides[s].split(".")
        k = edit["frag"] % len(frags)
        if edit["kind"] == "delete":
            if len(frags) < 2:
                return rsmi, False
            frags = frags[:k] + frags[k + 1 :]
        else:
            frags = frags[: k + 1] + [frags[k]] + frags[k + 1 :]
        sides[s] = ".".join(frags)
        return ">>".join(sides), True
    pat, rep = ATOM_EDITS[edit["rule"] % len(ATOM_EDITS)]
    hits = list(re.finditer(pat, sides[s]))
    if not hits:
        return rsmi, False
    m = hits[edit["occ"] % len(hits)]
    sides[s] = sides[s][: m.start()] + rep + sides[s][m.end() :]
    return ">>".join(sides), True


def heavy_formula(smiles):
    f = cg.side_formula(smiles)
    if f is None:
        return None
    c = dict(f[0])
    c.pop("H", None)
    return c
