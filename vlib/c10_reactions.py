"""Reaction population for the GML part of C10 and an independent reader for the GML rule text.

Population = the well-formed corpus reactions (chem_gen.corpus) plus a short vendored list of mapped reactions whose
centres carry what the corpus is thin on: atoms with |charge| >= 2, charge changes by two units, aromatic and triple
bonds in the centre, bare protons.  Each vendored entry is asserted to be well-formed (sanitisable, fully mapped,
same atom set on both sides), balanced and closed-shell on the generator side.

`read_rule` parses the rule text with nothing but regular expressions (no SynKit, no networkx reader), following the
MOD rule grammar SynKit documents: three sections, `node [ id N label "El<k><+|->" ]`, `edge [ source A target B
label "-|:|=|#" ]`; the left graph of the rule is left+context, the right graph is right+context.
"""
from __future__ import annotations

import re
from functools import lru_cache

import networkx as nx

from vlib import chem_gen

VENDORED_RXN = [
    "[Mg+2:1].[OH-:2].[OH-:3]>>[OH:2][Mg:1][OH:3]",
    "[Ca+2:1].[O-:2][C:3](=[O:4])[O-:5]>>[Ca:1]1[O:2][C:3](=[O:4])[O:5]1",
    "[O-2:1].[H+:2].[H+:3]>>[H:2][O:1][H:3]",
    "[S-2:1].[CH3:2][Br:3].[CH3:4][Br:5]>>[CH3:2][S:1][CH3:4].[Br-:3].[Br-:5]",
    "[Zn+2:1].[CH3:2][S-:3]>>[CH3:2][S:3][Zn+:1]",
    "[Mg+2:1].[O-:2][P:3](=[O:4])([O-:5])[O:6][CH3:7]>>[Mg+:1][O:2][P:3](=[O:4])([O-:5])[O:6][CH3:7]",
    "[O-2:1].[C:2](=[O:3])=[O:4]>>[O-:1][C:2](=[O:3])[O-:4]",
    "[Ca+2:11].[F-:12].[F-:30]>>[F:12][Ca:11][F:30]",
    "[Fe+2:1].[N:2]#[C-:3]>>[Fe+:1][C:3]#[N:2]",
    "[Al+3:1].[Cl-:2].[Cl-:3].[Cl-:4]>>[Cl:2][Al:1]([Cl:3])[Cl:4]",
    "[NH3:1].[H+:2]>>[NH3+:1][H:2]",
    "[CH3:1][N+:2](=[O:3])[O-:4].[OH-:5]>>[CH2-:1][N+:2](=[O:3])[O-:4].[OH2:5]",
    "[c:1]1([H:7])[cH:2][cH:3][cH:4][cH:5][cH:6]1.[N+:8](=[O:9])=[O:10]>>"
    "[c:1]1([N+:8](=[O:9])[O-:10])[cH:2][cH:3][cH:4][cH:5][cH:6]1.[H+:7]",
    "[CH:1]#[CH:2].[NH2-:3]>>[CH:1]#[C-:2].[NH3:3]",
    "[cH:1]1[cH:2][cH:3][n:4][cH:5][cH:6]1.[CH3:7][I:8]>>[cH:1]1[cH:2][cH:3][n+:4]([CH3:7])[cH:5][cH:6]1.[I-:8]",
    "[CH3:1][C:2]#[N:3].[OH2:4]>>[CH3:1][C:2](=[O:4])[NH2:3]",
]


@lru_cache(maxsize=None)
def population():
    """((rsmi, source, hydrogen style), ...) - corpus first, vendored list after it."""
    out = list(chem_gen.corpus())
    for r in VENDORED_RXN:
        assert chem_gen._well_formed(r), f"vendored reaction not well-formed: {r}"
        assert chem_gen.is_balanced(r), f"vendored reaction not balanced: {r}"
        for side in r.split(">>"):
            assert not any(a.GetNumRadicalElectrons() for a in chem_gen.parse(side).GetAtoms()), f"radical in {r}"
        out.append((r, "vendored", chem_gen.hydrogen_style(r)))
    return tuple(out)


# ------------------------------------------------------------------ independent GML reader
_SECTION = re.compile(r"^(left|context|right)\s*\[$")
_NODE = re.compile(r'^node\s*\[\s*id\s+(-?\d+)\s+label\s+"([^"]*)"\s*\]$')
_EDGE = re.compile(r'^edge\s*\[\s*source\s+(-?\d+)\s+target\s+(-?\d+)\s+label\s+"([^"]*)"\s*\]$')
_LABEL = re.compile(r"^([A-Z][a-z]?|\*)(?:(\d*)([+-]))?$")
_ORDER = {"-": 1.0, ":": 1.5, "=": 2.0, "#": 3.0}


def parse_atom_label(label):
    mo = _LABEL.match(label)
    if not mo:
        return None
    q = 0
    if mo.group(3):
        q = int(mo.group(2)) if mo.group(2) else 1
        q = q if mo.group(3) == "+" else -q
    return (mo.group(1), q)


def read_sections(text):
    """-> ({section: {"nodes": {id: (element, charge)}, "edges": {frozenset: order}}}, [problems])"""
    sec = {k: {"nodes": {}, "edges": {}} for k in ("left", "context", "right")}
    problems = []
    cur = None
    lines = [ln.strip() for ln in text.split("\n")]
    if not lines or lines[0] != "rule [" or lines[-1] != "]":
        problems.append("not framed by 'rule [' ... ']'")
    for ln in lines[1:-1]:
        if not ln or ln.startswith("ruleID"):
            continue
        mo = _SECTION.match(ln)
        if mo:
            cur = mo.group(1)
            continue
        if ln == "]":
            cur = None
            continue
        if cur is None:
            problems.append(f"line outside a section: {ln!r}")
            continue
        mo = _NODE.match(ln)
        if mo:
            nid, lab = int(mo.group(1)), parse_atom_label(mo.group(2))
            if lab is None:
                problems.append(f"unreadable atom label {mo.group(2)!r}")
            if nid in sec[cur]["nodes"]:
                problems.append(f"node id {nid} twice in {cur}")
            sec[cur]["nodes"][nid] = lab
            continue
        mo = _EDGE.match(ln)
        if mo:
            a, b = int(mo.group(1)), int(mo.group(2))
            if mo.group(3) not in _ORDER:
                problems.append(f"unreadable bond label {mo.group(3)!r}")
            k = frozenset((a, b))
            if k in sec[cur]["edges"] or a == b:
                problems.append(f"edge {a}-{b} twice (or a loop) in {cur}")
            sec[cur]["edges"][k] = _ORDER.get(mo.group(3))
            continue
        problems.append(f"unreadable line {ln!r}")
    return sec, problems


def read_rule(text):
    """-> (L, R, RG, problems).  L / R: the rule's left and right graphs (node attrs element, charge; edge attr
    order), RG: their overlay with node attr l=(elL, qL, elR, qR) and edge attr l=(orderL, orderR) (0.0 = absent).
    `problems` lists everything that makes the text not a well-formed chemical rule: an atom declared in context and
    in a side, on one side only, twice, an edge whose end points are not declared, or declared on a side and in
    context."""
    sec, problems = read_sections(text)
    ctx, lft, rgt = sec["context"], sec["left"], sec["right"]
    for n in ctx["nodes"]:
        if n in lft["nodes"] or n in rgt["nodes"]:
            problems.append(f"atom {n} declared in context and in a side")
    if set(lft["nodes"]) != set(rgt["nodes"]):
        problems.append(f"atoms {sorted(set(lft['nodes']) ^ set(rgt['nodes']))} declared on one side only")
    for k in ctx["edges"]:
        if k in lft["edges"] or k in rgt["edges"]:
            problems.append(f"edge {sorted(k)} declared in context and in a side")
    L, R = nx.Graph(), nx.Graph()
    for g, side in ((L, lft), (R, rgt)):
        for src in (ctx, side):
            for n, lab in src["nodes"].items():
                el, q = lab if lab is not None else (None, None)
                g.add_node(n, element=el, charge=q)
        for src in (ctx, side):
            for k, o in src["edges"].items():
                a, b = tuple(k) if len(k) == 2 else (next(iter(k)),) * 2
                for x in (a, b):
                    if x not in g:
                        problems.append(f"edge end point {x} is not a declared atom")
                        g.add_node(x, element=None, charge=None)
                g.add_edge(a, b, order=o)
    RG = nx.Graph()
    for n in set(L) | set(R):
        dl = L.nodes[n] if n in L else {"element": None, "charge": None}
        dr = R.nodes[n] if n in R else {"element": None, "charge": None}
        RG.add_node(n, l=(dl["element"], dl["charge"], dr["element"], dr["charge"]))
    for k in {frozenset(e) for e in L.edges} | {frozenset(e) for e in R.edges}:
        a, b = tuple(k) if len(k) == 2 else (next(iter(k)),) * 2
        ol = L.edges[a, b]["order"] if L.has_edge(a, b) else 0.0
        orr = R.edges[a, b]["order"] if R.has_edge(a, b) else 0.0
        RG.add_edge(a, b, l=(ol, orr))
    return L, R, RG, sorted(set(problems))
