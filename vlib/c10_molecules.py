"""Vendored molecule list for C10 (representation round trips) and the molecule population built from it.

Every entry is a closed-shell, stereo-free, isotope-free SMILES that RDKit sanitises; `validated()` asserts this
(generator side), so a typo here is a harness error and can never look like a SynKit defect.  Nothing in this file
calls SynKit.
"""
from __future__ import annotations

from functools import lru_cache

from rdkit import Chem, RDLogger

RDLogger.DisableLog("rdApp.*")

VENDORED = [
    # --- plain organics, multiple bonds, rings
    "C", "CC", "C=C", "C#C", "CCO", "CC(C)(C)C", "C1CC1", "C1CCCCC1", "C1=CCCCC1", "C=CC=C", "CC#N", "C#Cc1ccccc1",
    "CC(=O)O", "CC(=O)OC", "CC(=O)N", "CC(=O)Cl", "O=CC=O", "OCC(O)CO", "NCCN", "CN(C)C=O", "C1COCCO1", "C1CCNCC1",
    "O=C1CCCCC1", "C1CC2CCC1C2", "C12C3C4C1C5C2C3C45", "C1CC11CC1", "OC1C(O)C(O)C(O)C(O)C1O", "OCC1OC(O)C(O)C(O)C1O",
    "CC(C)Cc1ccc(cc1)C(C)C(O)=O", "CC(=O)Oc1ccccc1C(O)=O", "CC(=O)Nc1ccc(O)cc1", "CN1CCCC1c1cccnc1",
    "CC(C)CCCC(C)C1CCC2C1(CCC3C2CC=C4C3(CCC(C4)O)C)C", "CC1(C)SC2C(NC(=O)Cc3ccccc3)C(=O)N2C1C(O)=O",
    # --- benzenoid and fused aromatics
    "c1ccccc1", "Cc1ccccc1", "Oc1ccccc1", "Nc1ccccc1", "c1ccc(cc1)-c1ccccc1", "c1ccc2ccccc2c1", "c1ccc2cc3ccccc3cc2c1",
    "c1ccc2c(c1)ccc1ccccc21", "c1cc2ccc3cccc4ccc(c1)c2c34", "c1ccc2cccc2cc1", "O=C1c2ccccc2C(=O)c2ccccc12",
    "c1ccc2c(c1)Cc1ccccc1-2", "C1=Cc2ccccc2C1", "O=C1C=CC(=O)C=C1",
    # --- hetero-aromatics (incl. [nH], fused, charged)
    "c1ccncc1", "c1cc[nH]c1", "c1ccoc1", "c1ccsc1", "c1c[nH]cn1", "c1cn[nH]c1", "c1cscn1", "c1cocn1", "c1ncn[nH]1",
    "c1nnn[nH]1", "c1cnccn1", "c1cncnc1", "c1ccnnc1", "c1ncncn1", "c1ccc2[nH]ccc2c1", "c1ccc2ncccc2c1", "c1ccc2cnccc2c1",
    "c1ccc2occc2c1", "c1ccc2sccc2c1", "c1ccc2[nH]cnc2c1", "c1ccc2c(c1)[nH]c1ccccc21", "c1ccc2nc3ccccc3cc2c1",
    "c1ncc2[nH]cnc2n1", "Nc1ncnc2[nH]cnc12", "O=c1cc[nH]c(=O)[nH]1", "Cc1c[nH]c(=O)[nH]c1=O", "Nc1cc[nH]c(=O)n1",
    "Nc1nc2[nH]cnc2c(=O)[nH]1", "Cn1cnc2c1c(=O)n(C)c(=O)n2C", "O=c1cccc[nH]1", "O=c1ccocc1", "c1cc[nH+]cc1",
    "C[n+]1ccccc1", "[O-][n+]1ccccc1", "C[n+]1ccn(C)c1", "c1c[nH]c[nH+]1", "c1cc[o+]cc1", "c1cc[s+]cc1", "[cH-]1cccc1",
    "c1ccc2[nH]nnc2c1", "c1cnc2ccccc2n1", "c1ccc2nsnc2c1", "Cc1noc(C)c1", "c1cn2ccnc2cn1", "c1ccn2cccc2c1",
    "NC(=O)c1ccc[n+](c1)C1OC(COP(O)(=O)OP(O)(=O)OCC2OC(C(O)C2O)n2cnc3c(N)ncnc23)C(O)C1O",
    "Nc1ncnc2n(cnc12)C1OC(COP(O)(=O)OP(O)(=O)OP(O)(O)=O)C(O)C1O",
    # --- charged organics: cations, anions, zwitterions, dipoles
    "C[N+](C)(C)C", "C[NH3+]", "C[O+](C)C", "C=[N+](C)C", "CC(C)=[OH+]", "CC#[O+]", "[CH3+]", "C[CH+]C", "C[C+](C)C",
    "c1ccccc1[N+]#N", "C[S+](C)C", "C[P+](C)(C)C", "CC(=O)[O-]", "C[O-]", "[O-]c1ccccc1", "C=C(C)[O-]", "CC(=O)[CH2-]",
    "[CH3-]", "C#[C-]", "C[S-]", "C[NH-]", "CS([O-])(=O)=O", "COP([O-])([O-])=O", "[O-]C(=O)C([O-])=O",
    "[NH3+]CC([O-])=O", "C[N+](C)(C)CC([O-])=O", "C[N+](C)(C)[O-]", "C[N+](=O)[O-]", "[O-][N+](=O)c1ccccc1",
    "C=[N+]=[N-]", "CN=[N+]=[N-]", "C[N+]#[C-]", "C=[N+](C)[O-]", "C[S+](C)[CH2-]", "C[S+](C)[O-]",
    "[CH2-][P+](c1ccccc1)(c1ccccc1)c1ccccc1", "CC(=O)C=[N+]=[N-]", "[O-][N+](=O)c1cc(cc(c1)[N+]([O-])=O)[N+]([O-])=O",
    "NC(CCC([O-])=O)C([O-])=O", "[NH3+]CCCCC([NH3+])C([O-])=O", "NC(=[NH2+])NCCCC([NH3+])C([O-])=O",
    # --- S / P / halogen hypervalent
    "CS(C)=O", "CS(C)(=O)=O", "OS(O)(=O)=O", "[O-]S([O-])(=O)=O", "OS(O)=O", "O=S=O", "O=S(=O)=O", "CS(N)(=O)=O",
    "OS(=O)(=O)c1ccccc1", "FS(F)(F)(F)(F)F", "FS(F)(F)F", "OP(O)(O)=O", "[O-]P([O-])([O-])=O", "OP(O)O", "CP(C)(C)=O",
    "FP(F)(F)(F)F", "ClP(Cl)(Cl)(Cl)Cl", "O=P(Cl)(Cl)Cl", "F[P-](F)(F)(F)(F)F", "c1ccc(cc1)P(c1ccccc1)c1ccccc1",
    "COP(=O)(OC)OC", "CSSC", "CC(=S)N", "S=C=S", "O=C=S", "[O-]Cl(=O)(=O)=O", "[O-]Cl", "OCl(=O)=O",
    "FI(F)(F)(F)F", "O=I(=O)c1ccccc1", "F[Xe]F",
    # --- halogens
    "CCl", "ClC(Cl)(Cl)Cl", "BrCCBr", "FC(F)(F)c1ccccc1", "Ic1ccccc1", "ClC=C", "Fc1c(F)c(F)c(F)c(F)c1F",
    "Brc1ccc(Cl)cc1F", "FC(F)(F)C(F)(F)F", "ClCl", "BrBr", "FF", "II", "Cl", "Br", "F", "I",
    # --- small inorganic species and ions
    "O", "N", "S", "P", "B", "[OH-]", "[H+]", "[OH3+]", "[NH4+]", "[NH2-]", "[SH-]", "[S-2]", "[O-2]", "[F-]", "[Cl-]",
    "[Br-]", "[I-]", "[Li+]", "[Na+]", "[K+]", "[Mg+2]", "[Ca+2]", "[Zn+2]", "[Fe+2]", "[Al+3]",
    "O=C=O", "[C-]#[O+]", "N#N", "O=O", "OO", "[O-][O-]", "C#N", "[C-]#N", "[S-]C#N", "[N-]=[N+]=[N-]", "N=[N+]=[N-]",
    "O=[N+]([O-])[O-]", "[O-]N=O", "O=[N+]=O", "[O-]C([O-])=O", "OC([O-])=O", "OB(O)O", "[BH4-]", "F[B-](F)(F)F",
    "OB(O)c1ccccc1", "B1OBOBO1", "[SiH4]", "C[Si](C)(C)C", "Cl[Si](Cl)(Cl)Cl", "O=[Si]=O", "C[Se]C", "[SeH2]",
    "C[Mg]Br", "[Li]CCCC", "C[Zn]C", "CC[Al](CC)CC", "Cl[Sn](Cl)(Cl)Cl", "C[Hg]C", "[AlH4-]", "O=[Mn](=O)(=O)[O-]",
    "O=[Os](=O)(=O)=O", "Cl[Ti](Cl)(Cl)Cl",
]


def _problems(smiles):
    m = Chem.MolFromSmiles(smiles)
    if m is None:
        return "does not sanitise"
    if any(a.GetNumRadicalElectrons() for a in m.GetAtoms()):
        return "radical"
    if any(a.GetIsotope() for a in m.GetAtoms()):
        return "isotope"
    if "@" in smiles or "/" in smiles or "\\" in smiles:
        return "stereo"
    if any(b.GetBondType() not in (Chem.BondType.SINGLE, Chem.BondType.DOUBLE, Chem.BondType.TRIPLE, Chem.BondType.AROMATIC)
           for b in m.GetBonds()):
        return "bond type outside single/double/triple/aromatic"
    return None


@lru_cache(maxsize=None)
def validated():
    """The vendored list, de-duplicated by RDKit canonical SMILES; asserts every entry is inside the domain."""
    seen, out = set(), []
    for s in VENDORED:
        why = _problems(s)
        assert why is None, f"vendored molecule {s!r}: {why}"
        k = Chem.MolToSmiles(Chem.MolFromSmiles(s))
        if k not in seen:
            seen.add(k)
            out.append(s)
    return tuple(out)


def strip_fragment(frag):
    """One '.'-separated piece of a mapped reaction side -> (unmapped, stereo-free, isotope-free SMILES written with
    explicit H atoms kept, canonical key) or None when it is outside the population (does not sanitise, radical)."""
    p = Chem.SmilesParserParams()
    p.removeHs = False
    m = Chem.MolFromSmiles(frag, p)
    if m is None:
        return None
    for a in m.GetAtoms():
        a.SetAtomMapNum(0)
        a.SetIsotope(0)
    Chem.RemoveStereochemistry(m)
    if any(a.GetNumRadicalElectrons() for a in m.GetAtoms()):
        return None
    s = Chem.MolToSmiles(m, isomericSmiles=False)
    return s


@lru_cache(maxsize=None)
def population():
    """((smiles, source), ...): distinct fragments of the corpus reactions (maps stripped, explicit H atoms kept as
    written) followed by the vendored list.  Order is deterministic (corpus order, then list order)."""
    from vlib import chem_gen

    seen, out = set(), []
    for rsmi, src, _style in chem_gen.corpus():
        for side in rsmi.split(">>"):
            for frag in side.split("."):
                s = strip_fragment(frag)
                if s is None or s in seen:
                    continue
                seen.add(s)
                out.append((s, src))
    for s in validated():
        k = strip_fragment(s)
        if k in seen:
            continue
        seen.add(k)
        out.append((s, "vendored"))
    return tuple(out)
