"""Reference definitions for C11 (automorphisms, orbits, 1-WL classes, documented de-duplication classes).

Written from the definitions; nothing here imports SynKit or a networkx matcher.  Graphs are undirected
networkx graphs without self-loops; partitions are sets of frozensets.
"""
from __future__ import annotations

from collections import Counter

from vlib.oracles import iso

_MISSING = object()


# ------------------------------------------------------------------ label comparison
def eq_default(keys, default_of):
    """a ~ b iff equal on every key, a missing key standing for default_of(key)."""
    keys = list(keys)

    def f(a, b):
        for k in keys:
            d = default_of(k)
            if a.get(k, d) != b.get(k, d):
                return False
        return True

    return f


def automorphism_class_defaults():
    """Missing-value convention of synkit Automorphism: charge -> 0, any other node key -> '*', edge keys -> 1."""
    return (lambda k: 0 if k == "charge" else "*"), (lambda k: 1.0)


def none_defaults():
    """Missing-value convention of AutoEst: a missing value is the label None."""
    return (lambda k: None), (lambda k: None)


# ------------------------------------------------------------------ structure
def components(g):
    seen = set()
    out = []
    for s in g.nodes:
        if s in seen:
            continue
        comp = {s}
        stack = [s]
        while stack:
            u = stack.pop()
            for v in g[u]:
                if v not in comp:
                    comp.add(v)
                    stack.append(v)
        seen |= comp
        out.append(frozenset(comp))
    return out


class TooMany(Exception):
    pass


def component_automorphisms(g, comp, node_ok, edge_ok, limit):
    sub = g.subgraph(comp)
    autos = list(iso.isomorphisms(sub, sub, node_ok, edge_ok, limit=limit + 1))
    if len(autos) > limit:
        raise TooMany()
    return autos


def per_component_analysis(g, node_ok, edge_ok, limit=50000):
    """(product of per-component automorphism counts, union of per-component orbits, components).
    Component swaps are excluded by construction."""
    comps = components(g)
    total = 1
    orbits = set()
    per = []
    for c in comps:
        autos = component_automorphisms(g, c, node_ok, edge_ok, limit)
        total *= len(autos)
        orbs = iso.orbits_from(autos, sorted(c, key=repr))
        orbits |= set(orbs)
        per.append((c, autos, orbs))
    return total, orbits, comps, per


def full_group_orbits(g, node_ok, edge_ok, limit=50000, analysis=None):
    """Orbits under the FULL automorphism group (component swaps included): u ~ v iff some label-preserving
    isomorphism comp(u) -> comp(v) maps u to v.  One isomorphism A -> B composed with Aut(A) gives them all."""
    _, _, comps, per = analysis if analysis is not None else per_component_analysis(g, node_ok, edge_ok, limit)
    parent = {n: n for n in g.nodes}

    def find(x):
        while parent[x] != x:
            parent[x] = parent[parent[x]]
            x = parent[x]
        return x

    def union(a, b):
        ra, rb = find(a), find(b)
        if ra != rb:
            parent[ra] = rb

    for c, autos, orbs in per:
        for o in orbs:
            o = list(o)
            for x in o[1:]:
                union(o[0], x)
    for i in range(len(comps)):
        for j in range(i + 1, len(comps)):
            a, b = comps[i], comps[j]
            if len(a) != len(b):
                continue
            phi = next(iter(iso.isomorphisms(g.subgraph(a), g.subgraph(b), node_ok, edge_ok, limit=1)), None)
            if phi is not None:
                for u, v in phi.items():
                    union(u, v)
    cl = {}
    for n in g.nodes:
        cl.setdefault(find(n), set()).add(n)
    return {frozenset(s) for s in cl.values()}


# ------------------------------------------------------------------ partitions
def is_partition(blocks, nodes):
    seen = []
    for b in blocks:
        seen.extend(b)
    return len(seen) == len(set(seen)) and set(seen) == set(nodes) and all(len(b) > 0 for b in blocks)


def block_of(blocks):
    idx = {}
    for i, b in enumerate(blocks):
        for n in b:
            idx[n] = i
    return idx


def split_witness(fine, coarse):
    """A pair (u, v) in one block of `fine` but in different blocks of `coarse` (i.e. `coarse` is NOT a
    coarsening of `fine`), or None."""
    idx = block_of(coarse)
    for b in fine:
        b = sorted(b, key=repr)
        for x in b[1:]:
            if idx[x] != idx[b[0]]:
                return b[0], x
    return None


# ------------------------------------------------------------------ 1-WL (colour refinement) from the definition
def wl_partition(g, node_keys, edge_keys, rounds):
    """Partition after `rounds` rounds of colour refinement (or the stable partition if reached earlier).
    Initial colour = (degree, node values); a round replaces the colour of v by (colour of v, multiset over
    neighbours u of (colour of u, edge values of vu)).  Missing values are the label None."""
    node_keys, edge_keys = list(node_keys), list(edge_keys)

    def number(labels):
        ids = {}
        return {v: ids.setdefault(lab, len(ids)) for v, lab in labels.items()}

    col = number({v: (g.degree(v), tuple(g.nodes[v].get(k) for k in node_keys)) for v in g.nodes})
    for _ in range(max(0, rounds)):
        labels = {}
        for v in g.nodes:
            ms = Counter((col[u], tuple(g.edges[v, u].get(k) for k in edge_keys)) for u in g[v])
            labels[v] = (col[v], frozenset(ms.items()))
        new = number(labels)
        if len(set(new.values())) == len(set(col.values())):
            break
        col = new
    cl = {}
    for v, c in col.items():
        cl.setdefault(c, set()).add(v)
    return {frozenset(s) for s in cl.values()}


# ------------------------------------------------------------------ OrbitAccuracy definitions
def accuracy_metrics(approx, exact):
    approx, exact = [frozenset(a) for a in approx], [frozenset(e) for e in exact]
    nodes = sorted(set().union(*approx) if approx else set(), key=repr)
    ia, ie = block_of(approx), block_of(exact)
    n = len(nodes)
    exact_match = sum(1 for v in nodes if approx[ia[v]] == exact[ie[v]]) / (n or 1)
    purity = sum(max((len(a & e) for e in exact), default=0) for a in approx if a) / (n or 1)
    agree = tot = 0
    for i in range(n):
        for j in range(i + 1, n):
            tot += 1
            agree += (ia[nodes[i]] == ia[nodes[j]]) == (ie[nodes[i]] == ie[nodes[j]])
    return {
        "node_exact_match_fraction": exact_match,
        "purity": purity,
        "pairwise_accuracy": agree / tot if tot else 1.0,
    }


# ------------------------------------------------------------------ documented classes of deduplicate_matches_with_anchor
def dedup_class_key(match, pattern_orbits, pattern_anchor, host_orbits):
    """Class of a FULL match under the rules in the docstring of deduplicate_matches_with_anchor, or _MISSING when
    the rules do not decide (an orbit partly inside the anchor).

    * pattern orbits given: anchored pattern nodes are fixed; every orbit disjoint from the anchor contributes the
      multiset of its images, a host node standing for its host orbit when host orbits are given;
    * only host orbits given: the multiset of host orbits hit;
    * neither: every match is its own class (handled by the caller)."""
    hrep = (lambda h: h) if host_orbits is None else block_of(list(host_orbits)).__getitem__
    if pattern_orbits is None:
        return ("host", tuple(sorted(Counter(hrep(h) for h in match.values()).items())))
    anchor = frozenset(pattern_anchor or ())
    parts = []
    for o in sorted((tuple(sorted(o)) for o in pattern_orbits)):
        so = set(o)
        if so & anchor:
            if not so <= anchor:
                return _MISSING
            continue
        parts.append((o, tuple(sorted(Counter(hrep(match[p]) for p in o).items()))))
    fixed = tuple((p, match[p]) for p in sorted(anchor) if p in match)
    return ("pattern", tuple(parts), fixed)
