"""Small labelled graphs as JSON cases + Hypothesis strategies + exhaustive enumerators.

case = {"nodes": [[id, attrs], ...], "edges": [[u, v, attrs], ...]}   (list order = insertion order)
"""
from __future__ import annotations

import itertools

import networkx as nx
from hypothesis import strategies as st

ELEMENTS = ["C", "N", "O"]


def to_nx(case, directed=False):
    g = nx.DiGraph() if directed else nx.Graph()
    for n, a in case["nodes"]:
        g.add_node(n, **a)
    for u, v, a in case["edges"]:
        g.add_edge(u, v, **a)
    return g


def from_nx(g):
    return {"nodes": [[n, dict(d)] for n, d in g.nodes(data=True)], "edges": [[u, v, dict(d)] for u, v, d in g.edges(data=True)]}


def node_attr_strategy(elements=("C", "N"), charges=(0,), hcounts=(0,), aromatic=(False,), extra=None):
    d = dict(element=st.sampled_from(list(elements)))
    if charges is not None:
        d["charge"] = st.sampled_from(list(charges))
    if hcounts is not None:
        d["hcount"] = st.sampled_from(list(hcounts))
    if aromatic is not None:
        d["aromatic"] = st.sampled_from(list(aromatic))
    if extra:
        d.update(extra)
    return st.fixed_dictionaries(d)


def edge_attr_strategy(orders=(1, 2)):
    return st.fixed_dictionaries(dict(order=st.sampled_from(list(orders))))


@st.composite
def graphs(draw, min_nodes=1, max_nodes=8, node_attrs=None, edge_attrs=None, connected=None, max_components=3, id_pool=40, extra_edge_p=0.3, contiguous_ids=False):
    """Constructive generator: spanning forest with a drawn number of components plus extra edges.
    Node ids are distinct non-contiguous integers in drawn (insertion) order."""
    node_attrs = node_attr_strategy() if node_attrs is None else node_attrs
    edge_attrs = edge_attr_strategy() if edge_attrs is None else edge_attrs
    n = draw(st.integers(min_nodes, max_nodes))
    if contiguous_ids:
        ids = list(range(1, n + 1))
    else:
        ids = draw(st.lists(st.integers(1, id_pool), min_size=n, max_size=n, unique=True))
    nodes = [[i, draw(node_attrs)] for i in ids]
    if connected is True:
        ncomp = 1
    elif connected is False:
        ncomp = draw(st.integers(2, max(2, min(max_components, n)))) if n >= 2 else 1
    else:
        ncomp = draw(st.integers(1, max(1, min(max_components, n))))
    edges = []
    present = set()
    # spanning forest: node k (k >= ncomp) attaches to an earlier node of its component
    comp_of = {}
    for k, i in enumerate(ids):
        if k < ncomp:
            comp_of[i] = k
        else:
            j = ids[draw(st.integers(0, k - 1))]
            comp_of[i] = comp_of[j]
            a, b = (i, j) if draw(st.booleans()) else (j, i)
            edges.append([a, b, draw(edge_attrs)])
            present.add(frozenset((i, j)))
    # extra edges inside components
    pairs = [(a, b) for a, b in itertools.combinations(ids, 2) if comp_of[a] == comp_of[b] and frozenset((a, b)) not in present]
    if pairs:
        k = draw(st.integers(0, min(len(pairs), max(1, int(len(pairs) * extra_edge_p) + 1))))
        idx = draw(st.lists(st.integers(0, len(pairs) - 1), min_size=k, max_size=k, unique=True))
        for t in idx:
            a, b = pairs[t]
            if draw(st.booleans()):
                a, b = b, a
            edges.append([a, b, draw(edge_attrs)])
    return {"nodes": nodes, "edges": edges}


@st.composite
def relabelled(draw, case, id_pool=60, shuffle=True):
    """A copy of `case` with fresh node ids, shuffled node/edge insertion order and random edge orientation.
    Returns (new_case, mapping old->new)."""
    old = [n for n, _ in case["nodes"]]
    new = draw(st.lists(st.integers(1, id_pool), min_size=len(old), max_size=len(old), unique=True))
    m = dict(zip(old, new))
    nodes = [[m[n], dict(a)] for n, a in case["nodes"]]
    edges = [[m[u], m[v], dict(a)] for u, v, a in case["edges"]]
    if shuffle:
        nodes = draw(st.permutations(nodes))
        edges = draw(st.permutations(edges))
        edges = [[v, u, a] if draw(st.booleans()) else [u, v, a] for u, v, a in edges]
    return {"nodes": list(nodes), "edges": list(edges)}, m


@st.composite
def one_edit(draw, case, node_alts=None, edge_alts=None):
    """A neighbour of `case` differing by exactly one edit (node attribute, edge attribute, edge removal/addition).
    Returns (new_case, description).  node_alts: {key: values}."""
    node_alts = node_alts or {"element": ["C", "N", "O"], "charge": [0, -1, 1]}
    edge_alts = edge_alts or {"order": [1, 2, 3]}
    nodes = [[n, dict(a)] for n, a in case["nodes"]]
    edges = [[u, v, dict(a)] for u, v, a in case["edges"]]
    kinds = ["node"]
    if edges:
        kinds += ["edge", "del"]
    ids = [n for n, _ in nodes]
    missing = [(a, b) for a, b in itertools.combinations(ids, 2) if not any({u, v} == {a, b} for u, v, _ in edges)]
    if missing:
        kinds.append("add")
    kind = draw(st.sampled_from(kinds))
    if kind == "node":
        i = draw(st.integers(0, len(nodes) - 1))
        key = draw(st.sampled_from(sorted(node_alts)))
        cur = nodes[i][1].get(key)
        alt = draw(st.sampled_from([x for x in node_alts[key] if x != cur]))
        nodes[i][1][key] = alt
        desc = f"node {nodes[i][0]} {key}: {cur}->{alt}"
    elif kind == "edge":
        i = draw(st.integers(0, len(edges) - 1))
        key = draw(st.sampled_from(sorted(edge_alts)))
        cur = edges[i][2].get(key)
        alt = draw(st.sampled_from([x for x in edge_alts[key] if x != cur]))
        edges[i][2][key] = alt
        desc = f"edge {edges[i][:2]} {key}: {cur}->{alt}"
    elif kind == "del":
        i = draw(st.integers(0, len(edges) - 1))
        desc = f"del edge {edges[i][:2]}"
        del edges[i]
    else:
        a, b = missing[draw(st.integers(0, len(missing) - 1))]
        attrs = {k: draw(st.sampled_from(v)) for k, v in edge_alts.items()}
        edges.append([a, b, attrs])
        desc = f"add edge {[a, b]}"
    return {"nodes": nodes, "edges": edges}, desc


def symmetric_families():
    """Highly symmetric unlabelled shapes as edge lists on 0..n-1."""
    fams = {}
    for n in range(3, 9):
        fams[f"cycle{n}"] = (n, [(i, (i + 1) % n) for i in range(n)])
    for n in range(3, 8):
        fams[f"star{n}"] = (n, [(0, i) for i in range(1, n)])
        fams[f"path{n}"] = (n, [(i, i + 1) for i in range(n - 1)])
    for a, b in ((2, 2), (2, 3), (3, 3)):
        fams[f"K{a}{b}"] = (a + b, [(i, a + j) for i in range(a) for j in range(b)])
    fams["K4"] = (4, list(itertools.combinations(range(4), 2)))
    fams["cube"] = (8, [(i, i ^ (1 << b)) for i in range(8) for b in range(3) if i < i ^ (1 << b)])
    fams["two_triangles"] = (6, [(0, 1), (1, 2), (0, 2), (3, 4), (4, 5), (3, 5)])
    fams["two_paths"] = (6, [(0, 1), (1, 2), (3, 4), (4, 5)])
    fams["prism"] = (6, [(0, 1), (1, 2), (0, 2), (3, 4), (4, 5), (3, 5), (0, 3), (1, 4), (2, 5)])
    return fams


@st.composite
def symmetric_graphs(draw, node_attrs=None, edge_attrs=None, uniform=True):
    fams = symmetric_families()
    name = draw(st.sampled_from(sorted(fams)))
    n, es = fams[name]
    node_attrs = node_attr_strategy() if node_attrs is None else node_attrs
    edge_attrs = edge_attr_strategy() if edge_attrs is None else edge_attrs
    if uniform or draw(st.booleans()):
        na = draw(node_attrs)
        ea = draw(edge_attrs)
        nodes = [[i + 1, dict(na)] for i in range(n)]
        edges = [[u + 1, v + 1, dict(ea)] for u, v in es]
    else:
        nodes = [[i + 1, draw(node_attrs)] for i in range(n)]
        edges = [[u + 1, v + 1, draw(edge_attrs)] for u, v in es]
    return {"nodes": nodes, "edges": edges, "family": name}


def enum_graphs(n, node_label_sets, edge_labels, first_id=1):
    """All labelled graphs on n nodes: node attrs from the cartesian product of node_label_sets
    ({key: values}), each unordered pair absent or carrying one of edge_labels (list of attr dicts)."""
    ids = list(range(first_id, first_id + n))
    keys = sorted(node_label_sets)
    node_choices = [dict(zip(keys, vals)) for vals in itertools.product(*[node_label_sets[k] for k in keys])]
    pairs = list(itertools.combinations(ids, 2))
    for nl in itertools.product(node_choices, repeat=n):
        for el in itertools.product([None] + list(edge_labels), repeat=len(pairs)):
            yield {
                "nodes": [[i, dict(a)] for i, a in zip(ids, nl)],
                "edges": [[u, v, dict(a)] for (u, v), a in zip(pairs, el) if a is not None],
            }


def apply_perm(case, perm_ids, node_order=None, edge_order=None, flip=None):
    """Relabel node ids by dict perm_ids and optionally reorder insertion order / flip edge orientation."""
    nodes = [[perm_ids[n], dict(a)] for n, a in case["nodes"]]
    edges = [[perm_ids[u], perm_ids[v], dict(a)] for u, v, a in case["edges"]]
    if node_order is not None:
        nodes = [nodes[i] for i in node_order]
    if edge_order is not None:
        edges = [edges[i] for i in edge_order]
    if flip:
        edges = [[v, u, a] if f else [u, v, a] for (u, v, a), f in zip(edges, flip)]
    return {"nodes": nodes, "edges": edges}
