"""Helpers shared by props/C01.py and props/C02.py.

* synthetic reactant/product pairs (G, H) on one node set as JSON cases (builder, Hypothesis strategies, exhaustive
  enumerator);
* plain-dict views of networkx graphs and exact comparison with readable diffs;
* reference computations written from the definitions (ITS invariant, reaction centre, BFS ball, hydrogen folding);
* one more chemistry-preserving representation change: making implicit hydrogens explicit, mapped atoms.

Nothing in here imports SynKit.

Pair case
---------
    {"ids":   [7, 3, 12],                 node ids (distinct, any order) = insertion order in G
     "hperm": [2, 0, 1],                  insertion order in H (indices into ids)
     "g": [[el, arom, hcount, charge, [nbr, ...]], ...],   per-index attributes on the reactant side
     "h": [[...], ...],                                     ... on the product side
     "e": [[i, j, sG, sH, flipG, flipH], ...],  i < j indices; s in {0, 1, 1.5, 2, 3}, 0 = absent, not both 0;
                                                flip = insert the edge as (j, i) on that side
     "erev": bool,                        insert H's edges in reverse list order
     "amap": bool}                        nodes also carry atom_map = id (what rsmi_to_graph produces)
"""
from __future__ import annotations

import itertools

import networkx as nx
from hypothesis import strategies as st
from rdkit import Chem

from vlib import chem_gen

ATTRS = ("element", "aromatic", "hcount", "charge")
STATES = (0, 1, 1.5, 2, 3)


# ------------------------------------------------------------------ building pairs
def build_pair(case, relabel=None, rev_nodes=False):
    """(G, H) as networkx graphs.  `relabel` maps node id -> new id (applied to ids and atom_map)."""
    ids = [relabel[i] if relabel else i for i in case["ids"]]
    n = len(ids)
    G, H = nx.Graph(), nx.Graph()
    order_g = list(range(n))
    order_h = list(case.get("hperm") or range(n))
    if rev_nodes:
        order_g, order_h = order_g[::-1], order_h[::-1]
    for g, order, key in ((G, order_g, "g"), (H, order_h, "h")):
        for k in order:
            el, ar, hc, ch, nb = case[key][k]
            d = dict(element=el, aromatic=ar, hcount=hc, charge=ch, neighbors=list(nb))
            if case.get("amap", True):
                d["atom_map"] = ids[k]
            g.add_node(ids[k], **d)
    eg = [e for e in case["e"] if e[2]]
    eh = [e for e in case["e"] if e[3]]
    if case.get("erev"):
        eh = eh[::-1]
    if rev_nodes:
        eg, eh = eg[::-1], eh[::-1]
    for i, j, sg, sh, fg, fh in eg:
        u, v = (ids[j], ids[i]) if fg else (ids[i], ids[j])
        G.add_edge(u, v, order=sg)
    for i, j, sg, sh, fg, fh in eh:
        u, v = (ids[j], ids[i]) if fh else (ids[i], ids[j])
        H.add_edge(u, v, order=sh)
    return G, H


def pair_str(case):
    ids = case["ids"]
    ns = ", ".join(f"{ids[k]}:{tuple(case['g'][k][:4])}|{tuple(case['h'][k][:4])}" for k in range(len(ids)))
    es = ", ".join(f"{ids[i]}-{ids[j]}:{sg}>{sh}" for i, j, sg, sh, *_ in case["e"])
    return f"nodes[{ns}] bonds[{es}]"


# ------------------------------------------------------------------ strategies
_NBRS = st.lists(st.sampled_from(["C", "H", "N", "O"]), max_size=3).map(sorted)


def _side_attr(elements, el=None):
    return st.tuples(
        st.just(el) if el is not None else st.sampled_from(elements),
        st.booleans(),
        st.integers(0, 3),
        st.sampled_from([0, 0, 1, -1]),
        _NBRS,
    ).map(list)


_CHANGED = [(a, b) for a in STATES for b in STATES if a != b]
_SAME = [(a, a) for a in STATES if a]


@st.composite
def pair_cases(draw, min_nodes=1, max_nodes=6, elements=("C", "N", "O", "H"), shared_element=False, dense=True, p_change=0.5, id_pool=60):
    """Pairs for C01 (dense, independent sides) and C02 (sparse, tree-like, mostly unchanged bonds)."""
    n = draw(st.integers(min_nodes, max_nodes))
    ids = draw(st.lists(st.integers(1, id_pool), min_size=n, max_size=n, unique=True))
    hperm = draw(st.permutations(list(range(n))))
    g, h = [], []
    for _ in range(n):
        a = draw(_side_attr(elements))
        if shared_element:
            b = draw(st.one_of(st.just(list(a)), _side_attr(elements, el=a[0])))
        else:
            b = draw(st.one_of(st.just(list(a)), _side_attr(elements)))
        g.append(a)
        h.append(b)
    pc = int(round(p_change * 100))
    state = st.integers(0, 99).flatmap(lambda r: st.sampled_from(_CHANGED) if r < pc else st.sampled_from(_SAME))
    pairs = []
    if dense:
        for i in range(n):
            for j in range(i + 1, n):
                if draw(st.integers(0, 9)) < 6:
                    pairs.append((i, j))
    else:
        # spanning forest (each node attaches to an earlier one, or starts a component) + a few extra edges
        for j in range(1, n):
            if draw(st.integers(0, 9)) < 9:
                pairs.append((draw(st.integers(0, j - 1)), j))
        extra = draw(st.integers(0, max(0, n // 3)))
        for _ in range(extra):
            if n >= 2:
                i = draw(st.integers(0, n - 2))
                j = draw(st.integers(i + 1, n - 1))
                if (i, j) not in pairs:
                    pairs.append((i, j))
    e = []
    for i, j in pairs:
        sg, sh = draw(state)
        e.append([i, j, sg, sh, draw(st.booleans()), draw(st.booleans())])
    e = draw(st.permutations(e)) if e else e
    return dict(ids=ids, hperm=list(hperm), g=g, h=h, e=[list(x) for x in e], erev=draw(st.booleans()), amap=draw(st.booleans()))


def enum_pairs(max_n=3, labels=None, states=STATES, stride=1, offset=0):
    """All pairs on n <= max_n nodes: every node gets a (reactant label, product label) from `labels` x `labels`,
    every unordered node pair a (sG, sH) from states x states.  Ids are fixed and non-contiguous; orientation and
    insertion order are derived from the running index so that both orientations occur throughout."""
    if labels is None:
        labels = [["C", False, 1, 0, ["C"]], ["N", True, 0, -1, []]]
    idpool = [9, 2, 14]
    count = 0
    for n in range(1, max_n + 1):
        ids = idpool[:n]
        slots = [(i, j) for i in range(n) for j in range(i + 1, n)]
        for nl in itertools.product(range(len(labels)), repeat=2 * n):
            for es in itertools.product(itertools.product(states, repeat=2), repeat=len(slots)):
                count += 1
                if (count - 1) % stride != offset % stride:
                    continue
                k = count
                e = []
                for (i, j), (sg, sh) in zip(slots, es):
                    if sg or sh:
                        e.append([i, j, sg, sh, bool(k & 1), bool(k & 2)])
                        k >>= 2
                yield dict(
                    ids=ids,
                    hperm=list(range(n))[::-1] if count & 4 else list(range(n)),
                    g=[list(labels[nl[2 * t]]) for t in range(n)],
                    h=[list(labels[nl[2 * t + 1]]) for t in range(n)],
                    e=e,
                    erev=bool(count & 8),
                    amap=bool(count & 16),
                )


# ------------------------------------------------------------------ plain views and exact comparison
def nodes_view(g, keys=None):
    if keys is None:
        return {n: dict(d) for n, d in g.nodes(data=True)}
    return {n: {k: d.get(k, "<missing>") for k in keys} for n, d in g.nodes(data=True)}


def ekey(u, v):
    return (u, v) if repr(u) <= repr(v) else (v, u)


def edges_view(g, keys=None):
    out = {}
    for u, v, d in g.edges(data=True):
        out[ekey(u, v)] = dict(d) if keys is None else {k: d.get(k, "<missing>") for k in keys}
    return out


def diff_views(a, b, what, la="got", lb="expected"):
    """None if the two dicts are equal, else a short description of the first differences."""
    if a == b:
        return None
    only_a = sorted(set(a) - set(b), key=repr)[:4]
    only_b = sorted(set(b) - set(a), key=repr)[:4]
    if only_a or only_b:
        return f"{what}: only in {la} {only_a}, only in {lb} {only_b}"
    for k in sorted(a, key=repr):
        if a[k] != b[k]:
            return f"{what} {k}: {la} {a[k]} != {lb} {b[k]}"
    return f"{what}: differ"


# ------------------------------------------------------------------ reference: the ITS by its definition
def side_tuple(g, n, with_neighbors=True):
    d = g.nodes[n]
    t = (d["element"], d["aromatic"], d["hcount"], d["charge"])
    return t + (d["neighbors"],) if with_neighbors else t


def reference_its_of(G, H, with_neighbors=True):
    """nodes: {n: (tupleG, tupleH)}, edges: {ekey: (oG, oH)} from the two side graphs (same node set)."""
    nodes = {n: (side_tuple(G, n, with_neighbors), side_tuple(H, n, with_neighbors)) for n in set(G) | set(H)}
    edges = {}
    for g, side in ((G, 0), (H, 1)):
        for u, v, d in g.edges(data=True):
            k = ekey(u, v)
            cur = list(edges.get(k, (0, 0)))
            cur[side] = d["order"]
            edges[k] = tuple(cur)
    return nodes, edges


# ------------------------------------------------------------------ reference: reaction centre, balls
def reference_centre(its):
    """(set of edge keys, set of nodes) of the reaction centre, from the definition: bonds whose two orders differ,
    plus every hydrogen-hydrogen bond; atoms = their endpoints.  Reads only `order` and `element` of the ITS."""
    E, V = set(), set()
    for u, v, d in its.edges(data=True):
        og, oh = d["order"]
        hh = its.nodes[u].get("element") == "H" and its.nodes[v].get("element") == "H"
        if og != oh or hh:
            E.add(ekey(u, v))
            V.update((u, v))
    return E, V


def ball(its, centre, k):
    """Nodes within k bonds of `centre` (own BFS, distance computed per node)."""
    dist = {n: 0 for n in centre}
    frontier = list(centre)
    d = 0
    while frontier and d < k:
        d += 1
        nxt = []
        for x in frontier:
            for y in its.adj[x]:
                if y not in dist:
                    dist[y] = d
                    nxt.append(y)
        frontier = nxt
    return set(dist)


def relabel_graph(g, pi, map_attr="atom_map"):
    """Copy of g with node ids (and the atom_map attribute) sent through pi; everything else untouched."""
    out = nx.Graph()
    for n, d in g.nodes(data=True):
        d2 = dict(d)
        if map_attr in d2:
            d2[map_attr] = pi[d2[map_attr]]
        out.add_node(pi[n], **d2)
    for u, v, d in g.edges(data=True):
        out.add_edge(pi[u], pi[v], **dict(d))
    return out


# ------------------------------------------------------------------ reference: hydrogen folding
def fold_hydrogens(G, H):
    """Fold every explicit hydrogen that is not part of the reaction centre into the hcount of its heavy
    neighbour, separately on each side.  A hydrogen is kept iff one of its bonds changes (order differs between
    the sides, incl. made/broken) or it is bonded to another hydrogen.  Input: RDKit-level side graphs keyed by
    atom map (chem_gen.side_graph).  Returns new (G', H')."""
    is_h = {n for n in G if G.nodes[n]["element"] == "H"} | {n for n in H if H.nodes[n]["element"] == "H"}
    keep = set()
    for h in is_h:
        nb = set(G.adj[h]) | set(H.adj[h])
        for x in nb:
            og = G.edges[h, x]["order"] if G.has_edge(h, x) else 0
            oh = H.edges[h, x]["order"] if H.has_edge(h, x) else 0
            if og != oh or x in is_h:
                keep.add(h)
    out = []
    for g in (G, H):
        g2 = g.copy()
        for h in sorted(is_h - keep):
            for x in list(g2.adj[h]):
                if x not in is_h:
                    g2.nodes[x]["hcount"] += 1
            g2.remove_node(h)
        out.append(g2)
    return out[0], out[1], sorted(is_h - keep)


# ------------------------------------------------------------------ representation change: explicit hydrogens
def explicit_h_variant(rsmi, keys, max_new=3):
    """Turn up to `max_new` implicit hydrogens into explicit, mapped hydrogen atoms on both sides.  Only heavy
    atoms that carry at least one implicit hydrogen on both sides are used, one hydrogen each, so the new H atom is
    bonded to the same atom on both sides (a spectator).  Returns (new_rsmi, [new map numbers]).  Asserts that
    the unmapped reaction key is unchanged and that folding the new atoms back gives the original side graphs."""
    r, p = rsmi.split(">>")
    mr, mp = chem_gen.parse(r), chem_gen.parse(p)
    hr = {a.GetAtomMapNum(): a.GetTotalNumHs() for a in mr.GetAtoms() if a.GetAtomicNum() > 1}
    hp = {a.GetAtomMapNum(): a.GetTotalNumHs() for a in mp.GetAtoms() if a.GetAtomicNum() > 1}
    cand = sorted(m for m in hr if hr[m] >= 1 and hp.get(m, 0) >= 1)
    if not cand or not keys:
        return rsmi, []
    chosen = []
    for k in keys[:max_new]:
        m = cand[k % len(cand)]
        if m not in chosen:
            chosen.append(m)
    top = max(max(hr), max(a.GetAtomMapNum() for a in mr.GetAtoms()))
    newmaps = {m: top + 1 + i for i, m in enumerate(chosen)}
    outs = []
    for mol in (mr, mp):
        rw = Chem.RWMol(mol)
        for a in list(rw.GetAtoms()):
            m = a.GetAtomMapNum()
            if m in newmaps and a.GetAtomicNum() > 1:
                tot = a.GetTotalNumHs()
                a.SetNoImplicit(True)
                a.SetNumExplicitHs(tot - 1)
                hat = Chem.Atom(1)
                hat.SetAtomMapNum(newmaps[m])
                hi = rw.AddAtom(hat)
                rw.AddBond(a.GetIdx(), hi, Chem.BondType.SINGLE)
        mol2 = rw.GetMol()
        Chem.SanitizeMol(mol2)
        outs.append(Chem.MolToSmiles(mol2, canonical=False))
    new = f"{outs[0]}>>{outs[1]}"
    assert chem_gen.rxn_key(new) == chem_gen.rxn_key(rsmi), f"explicit-H variant changed the chemistry: {rsmi} -> {new}"
    G0, H0, _ = chem_gen.reference_its(rsmi)
    G1, H1, _ = chem_gen.reference_its(new)
    for g0, g1 in ((G0, G1), (H0, H1)):
        g1 = g1.copy()
        for m, hm in newmaps.items():
            assert g1.has_edge(m, hm) and g1.degree(hm) == 1
            g1.nodes[m]["hcount"] += 1
            g1.remove_node(hm)
        assert nodes_view(g0) == nodes_view(g1) and edges_view(g0) == edges_view(g1), f"explicit-H variant changed a side graph: {rsmi} -> {new}"
    return new, sorted(newmaps.values())
