"""Common driver for the property checks.

A property module (props/Cxx.py) exposes

    PROPERTY = "Cxx"
    RULE     = "<how cases are generated and what makes one non-trivial>"
    SUBS     = [Sub(...), ...]
    KNOWN_PREDICATES = {name: fn(case, violation) -> bool}      (optional)

Every sub-check has a *body*: ``body(case, rec)`` takes a JSON-able case,
rebuilds the inputs from it, calls SynKit, compares with the oracle and
raises ``Violation`` when the property fails.  Cases come from a Hypothesis
strategy (``strategy(tier)``) or from a finite enumerator (``enum(tier)``),
so a replay file is just the JSON case plus the name of the sub-check.

Nothing in here calls an RNG of its own: random choices are Hypothesis' and
are a function of VERIF_SEED, the sub-check name and the shard index.
"""
from __future__ import annotations

import hashlib
import json
import multiprocessing as mp
import os
import sys
import time
import traceback
from collections import Counter
from dataclasses import dataclass, field
from typing import Any, Callable, Dict, Iterable, List, Optional

VERIF_DIR = os.path.dirname(os.path.dirname(os.path.abspath(__file__)))
REPO = os.path.realpath(os.environ.get("VERIF_REPO", "/repo"))
NPROC = int(os.environ.get("VERIF_JOBS", "16"))


# --------------------------------------------------------------------------
# exceptions
# --------------------------------------------------------------------------
class Violation(Exception):
    """The property does not hold on this case."""

    def __init__(self, clause: str, message: str = "", detail: Any = None):
        super().__init__(f"{clause}: {message}")
        self.clause = clause
        self.message = message
        self.detail = detail


class Inconclusive(Exception):
    """A budget was hit / a certificate could not be verified: not a verdict."""


class HarnessError(Exception):
    """The machinery itself is broken (exit 2, never a VIOLATION)."""


def _frames_in_repo(tb) -> Optional[str]:
    """Innermost traceback frame that lies in the tested tree, if any."""
    hit = None
    for fs in traceback.extract_tb(tb):
        fn = os.path.realpath(fs.filename)
        if fn.startswith(REPO + os.sep):
            hit = f"{os.path.relpath(fn, REPO)}:{fs.name}"
    return hit


# --------------------------------------------------------------------------
# recorder handed to every body
# --------------------------------------------------------------------------
class Rec:
    __slots__ = ("nontrivial", "labels", "sample", "key")

    def __init__(self):
        self.nontrivial = False
        self.labels: List[str] = []
        self.sample = None
        self.key = None

    def nt(self, flag: bool = True):
        if flag:
            self.nontrivial = True

    def label(self, *names: str):
        self.labels.extend(names)

    def show(self, obj):
        """Human readable rendering of the case for evidence samples."""
        self.sample = obj

    def distinct_key(self, obj):
        """Override what makes two cases the same (default: the JSON case)."""
        self.key = obj


@dataclass
class Sub:
    name: str
    body: Callable[[Any, Rec], None]
    strategy: Optional[Callable[[str], Any]] = None  # tier -> hypothesis strategy
    enum: Optional[Callable[[str], Iterable[Any]]] = None  # tier -> iterable of cases
    examples: Dict[str, int] = field(default_factory=lambda: {"quick": 200, "thorough": 2000})
    shards: Dict[str, int] = field(default_factory=lambda: {"quick": 8, "thorough": 16})
    exhaustive: Any = False  # True / tuple of tiers in which enum covers a finite space completely
    doc: str = ""
    serial: bool = False  # run in the parent process (body spawns its own workers)
    shrink: bool = True  # drop Hypothesis' shrink phase for expensive bodies (the unshrunk case is the replay)


# --------------------------------------------------------------------------
# known findings
# --------------------------------------------------------------------------
def load_known(prop: str) -> List[dict]:
    path = os.path.join(VERIF_DIR, "known_findings.json")
    if not os.path.exists(path):
        return []
    with open(path) as fh:
        data = json.load(fh)
    return [e for e in data.get("findings", []) if e.get("property") == prop and e.get("status") == "known"]


def match_known(known: List[dict], predicates: dict, sub: str, case, v: Violation) -> Optional[dict]:
    for e in known:
        m = e.get("match", {})
        if "sub" in m and m["sub"] != sub:
            continue
        if "subs" in m and sub not in m["subs"]:
            continue
        if "clause" in m and m["clause"] != v.clause:
            continue
        if "clauses" in m and v.clause not in m["clauses"]:
            continue
        if "predicate" in m:
            fn = predicates.get(m["predicate"])
            if fn is None:
                raise HarnessError(f"unknown predicate {m['predicate']}")
            if not fn(case, v, m):
                continue
        return e
    return None


# --------------------------------------------------------------------------
# worker
# --------------------------------------------------------------------------
def case_digest(obj) -> int:
    s = json.dumps(obj, sort_keys=True, separators=(",", ":"), default=str)
    return int.from_bytes(hashlib.blake2b(s.encode(), digest_size=8).digest(), "big")


def _mix_seed(seed: int, sub: str, shard: int, rnd: int = 0) -> int:
    h = hashlib.blake2b(f"{seed}|{sub}|{shard}|{rnd}".encode(), digest_size=8).digest()
    return int.from_bytes(h, "big")


class _Stats:
    def __init__(self):
        self.evaluations = 0
        self.nontrivial = set()
        self.labels = Counter()
        self.samples: List[Any] = []
        self.violations: List[dict] = []
        self.known: Dict[str, dict] = {}
        self.excluded_known = 0
        self.inconclusive = 0
        self.errors: List[str] = []

    def dump(self):
        return dict(
            evaluations=self.evaluations,
            nontrivial=self.nontrivial,
            labels=self.labels,
            samples=self.samples,
            violations=self.violations,
            known=self.known,
            excluded_known=self.excluded_known,
            inconclusive=self.inconclusive,
            errors=self.errors,
        )


def _load_module(prop: str):
    import importlib

    if VERIF_DIR not in sys.path:
        sys.path.insert(0, VERIF_DIR)
    return importlib.import_module(f"props.{prop}")


def _run_body(mod, sub: Sub, case, stats: _Stats, known, excluded_buckets, collect_only=False):
    """Execute one case.  Returns a Violation to be raised (for shrinking) or None."""
    rec = Rec()
    stats.evaluations += 1
    viol = None
    try:
        sub.body(case, rec)
    except Violation as v:
        viol = v
    except Inconclusive:
        stats.inconclusive += 1
        return None
    except HarnessError:
        raise
    except Exception as exc:  # noqa: BLE001
        if type(exc).__module__.startswith("hypothesis"):
            raise
        where = _frames_in_repo(exc.__traceback__)
        if where is None:
            raise HarnessError(
                f"{sub.name}: {type(exc).__name__}: {exc}\n" + "".join(traceback.format_exception(exc))
            ) from exc
        viol = Violation(f"exception:{type(exc).__name__}@{where}", str(exc)[:300])
    for lab in rec.labels:
        stats.labels[lab] += 1
    if rec.nontrivial and viol is None:
        d = case_digest(rec.key if rec.key is not None else case)
        if d not in stats.nontrivial:
            stats.nontrivial.add(d)
            if len(stats.samples) < 4:
                stats.samples.append(rec.sample if rec.sample is not None else case)
    if viol is None:
        return None
    preds = getattr(mod, "KNOWN_PREDICATES", {})
    e = match_known(known, preds, sub.name, case, viol)
    if e is not None:
        stats.excluded_known += 1
        ent = stats.known.setdefault(e["id"], {"what": e.get("what", ""), "count": 0, "example": case})
        ent["count"] += 1
        return None
    bucket = (sub.name, viol.clause)
    if bucket in excluded_buckets:
        return None
    return viol


def _shard_worker(args):
    prop, subname, tier, seed, shard, nshards, excluded = args
    t0 = time.time()
    stats = _Stats()
    try:
        mod = _load_module(prop)
        sub = next(s for s in mod.SUBS if s.name == subname)
        known = load_known(prop)
        excluded_buckets = set(map(tuple, excluded))
        if sub.enum is not None:
            _run_enum(mod, sub, tier, shard, nshards, stats, known, excluded_buckets)
        else:
            _run_hyp(mod, sub, tier, seed, shard, nshards, stats, known, excluded_buckets)
    except HarnessError as exc:
        stats.errors.append(str(exc))
    except Exception as exc:  # noqa: BLE001
        stats.errors.append("".join(traceback.format_exception(exc)))
    out = stats.dump()
    out["wall"] = time.time() - t0
    return out


def _run_enum(mod, sub, tier, shard, nshards, stats, known, excluded_buckets):
    best = {}
    for i, case in enumerate(sub.enum(tier)):
        if i % nshards != shard:
            continue
        v = _run_body(mod, sub, case, stats, known, excluded_buckets)
        if v is not None:
            size = len(json.dumps(case, default=str))
            b = best.get(v.clause)
            if b is None or size < b[0]:
                best[v.clause] = (size, case, v)
            if len(best) >= 8:
                break
    for clause, (_, case, v) in best.items():
        stats.violations.append(dict(sub=sub.name, clause=clause, message=v.message, case=case, shrunk="smallest-in-enumeration"))


def _run_hyp(mod, sub, tier, seed, shard, nshards, stats, known, excluded_buckets):
    import hypothesis
    from hypothesis import HealthCheck, Phase, given, settings

    total = sub.examples[tier]
    n = max(1, total // nshards)
    strat = sub.strategy(tier)
    excluded_buckets = set(excluded_buckets)
    for rnd in range(4):
        last = {}

        def body(case):
            v = _run_body(mod, sub, case, stats, known, excluded_buckets)
            if v is not None:
                last["case"] = case
                last["v"] = v
                raise v

        phases = [Phase.generate, Phase.shrink] if sub.shrink else [Phase.generate]
        test = settings(
            max_examples=n,
            deadline=None,
            database=None,
            derandomize=False,
            report_multiple_bugs=False,
            phases=phases,
            suppress_health_check=list(HealthCheck),
            print_blob=False,
        )(hypothesis.seed(_mix_seed(seed, sub.name, shard, rnd))(given(strat)(body)))
        try:
            test()
            return
        except Violation:
            v = last["v"]
            stats.violations.append(
                dict(sub=sub.name, clause=v.clause, message=v.message, case=last["case"], shrunk="hypothesis")
            )
            excluded_buckets.add((sub.name, v.clause))
            n = max(1, n // 2)
        except hypothesis.errors.Flaky as exc:
            raise HarnessError(f"{sub.name}: body is not deterministic: {str(exc)[:1500]}") from exc
        except hypothesis.errors.Unsatisfiable as exc:
            raise HarnessError(f"{sub.name}: generator unsatisfiable: {exc}") from exc


# --------------------------------------------------------------------------
# top level
# --------------------------------------------------------------------------
def _replay_files(prop: str) -> List[str]:
    d = os.path.join(VERIF_DIR, "replays")
    if not os.path.isdir(d):
        return []
    return sorted(os.path.join(d, f) for f in os.listdir(d) if f.startswith(prop + "_") and f.endswith(".json"))


def replay_one(mod, path: str, stats: _Stats, known) -> Optional[dict]:
    with open(path) as fh:
        doc = json.load(fh)
    sub = next((s for s in mod.SUBS if s.name == doc["sub"]), None)
    if sub is None:
        raise HarnessError(f"replay {path}: unknown sub-check {doc['sub']}")
    v = _run_body(mod, sub, doc["case"], stats, known, set())
    if v is None:
        return None
    return dict(sub=sub.name, clause=v.clause, message=v.message, case=doc["case"], shrunk="replay", path=path)


def _write_replay(prop: str, viol: dict) -> str:
    d = os.environ.get("VERIF_EVIDENCE_DIR") or os.path.join(VERIF_DIR, "replays", "found")
    os.makedirs(d, exist_ok=True)
    tag = hashlib.blake2b(
        json.dumps([viol["sub"], viol["clause"], viol["case"]], sort_keys=True, default=str).encode(), digest_size=5
    ).hexdigest()
    path = os.path.join(d, f"{prop}_{viol['sub']}_{tag}.json")
    with open(path, "w") as fh:
        json.dump(
            dict(property=prop, sub=viol["sub"], clause=viol["clause"], message=viol["message"], case=viol["case"]),
            fh,
            indent=1,
            default=str,
        )
    return path


def _trim(obj, limit=1500):
    s = json.dumps(obj, default=str)
    if len(s) <= limit:
        return json.loads(s)
    return s[:limit] + "..."


def main(prop: str, tier: str, replay: Optional[str] = None, only: Optional[List[str]] = None) -> int:
    t0 = time.time()
    seed = int(os.environ.get("VERIF_SEED", "1") or "1")
    sys.path.insert(0, REPO)
    try:
        import synkit

        sk = os.path.realpath(synkit.__file__)
        if not sk.startswith(REPO + os.sep):
            print(f"HARNESS-ERROR synkit imported from {sk}, expected under {REPO}")
            return 2
        mod = _load_module(prop)
    except Exception:  # noqa: BLE001
        traceback.print_exc()
        print("HARNESS-ERROR cannot import the tested tree / property module")
        # an import failure of the tested tree is a broken build, not a verdict
        return 2
    known = load_known(prop)

    if replay:
        stats = _Stats()
        try:
            viol = replay_one(mod, replay, stats, known)
        except HarnessError as exc:
            print("HARNESS-ERROR", exc)
            return 2
        for kid, ent in stats.known.items():
            print(f"KNOWN-FINDING: property={prop} {ent['what']} [{kid}]")
        if viol is not None:
            print(f"  {viol['sub']} / {viol['clause']}: {viol['message']}")
            print(f"VIOLATION property={prop} replay={replay}")
            return 1
        print(f"replay {replay}: property held")
        return 0

    agg = _Stats()
    per_sub = {}
    errors: List[str] = []
    violations: List[dict] = []
    exhaustive_subs = []

    # 1. regression tier: committed replays
    n_replays = 0
    for path in _replay_files(prop):
        try:
            v = replay_one(mod, path, agg, known)
        except HarnessError as exc:
            errors.append(str(exc))
            continue
        n_replays += 1
        if v is not None:
            violations.append(v)
    agg.samples = [dict(sub="replay", case=_trim(c)) for c in agg.samples[:1]]
    agg.nontrivial = set()

    # 2. campaigns
    subs = [s for s in mod.SUBS if not only or s.name in only]
    jobs = []
    for s in subs:
        k = 1 if s.serial else max(1, min(s.shards[tier], NPROC))
        for i in range(k):
            jobs.append((prop, s.name, tier, seed, i, k, []))
    serial_jobs = [j for j in jobs if next(s for s in subs if s.name == j[1]).serial]
    pool_jobs = [j for j in jobs if j not in serial_jobs]
    results = []
    if pool_jobs:
        ctx = mp.get_context("fork")
        with ctx.Pool(min(NPROC, len(pool_jobs))) as pool:
            for j, r in zip(pool_jobs, pool.imap(_shard_worker, pool_jobs, chunksize=1)):
                results.append((j, r))
    for j in serial_jobs:
        results.append((j, _shard_worker(j)))

    for j, r in results:
        name = j[1]
        ps = per_sub.setdefault(name, dict(evaluations=0, nontrivial=set(), wall=0.0, inconclusive=0))
        ps["evaluations"] += r["evaluations"]
        ps["nontrivial"] |= r["nontrivial"]
        ps["wall"] = max(ps["wall"], r["wall"])
        ps["inconclusive"] += r["inconclusive"]
        agg.evaluations += r["evaluations"]
        agg.labels.update({f"{name}:{k}": v for k, v in r["labels"].items()})
        agg.excluded_known += r["excluded_known"]
        agg.inconclusive += r["inconclusive"]
        for kid, ent in r["known"].items():
            e = agg.known.setdefault(kid, dict(ent, count=0))
            e["count"] += ent["count"]
        if len([s for s in agg.samples if s.get("sub") == name]) < 3:
            for smp in r["samples"][:2]:
                agg.samples.append(dict(sub=name, case=_trim(smp)))
        violations.extend(r["violations"])
        errors.extend(r["errors"])
    for s in subs:
        if s.enum is not None and (s.exhaustive is True or (not isinstance(s.exhaustive, bool) and tier in s.exhaustive)):
            exhaustive_subs.append(s.name)

    distinct_nt = sum(len(ps["nontrivial"]) for ps in per_sub.values())

    # 3. report
    seen = set()
    uniq = []
    for v in violations:
        key = (v["sub"], v["clause"])
        if key in seen:
            continue
        seen.add(key)
        uniq.append(v)
    for kid, ent in sorted(agg.known.items()):
        print(f"KNOWN-FINDING: property={prop} {ent['what']} [{kid}; {ent['count']} case(s) excluded]")
    rc = 0
    vio_out = []
    for v in uniq:
        path = v.get("path") or _write_replay(prop, v)
        print(f"  {v['sub']} / {v['clause']}: {v['message'][:400]}")
        print(f"VIOLATION property={prop} replay={os.path.relpath(path, VERIF_DIR)}")
        vio_out.append(dict(sub=v["sub"], clause=v["clause"], replay=os.path.relpath(path, VERIF_DIR)))
        rc = 1
    if errors:
        for e in errors[:5]:
            print("HARNESS-ERROR", e[:3000])
        rc = 2 if rc == 0 else rc

    evidence = dict(
        property_id=prop,
        tier=tier,
        seed=seed,
        level="exploration",
        coverage=dict(
            evaluations=agg.evaluations,
            distinct_nontrivial=distinct_nt,
            rule=mod.RULE,
            samples=agg.samples[:12],
            exhaustive=bool(exhaustive_subs) and len(exhaustive_subs) == len(subs),
            exhaustive_subchecks=exhaustive_subs,
            replays_run=n_replays,
            per_subcheck={
                k: dict(
                    evaluations=v["evaluations"],
                    distinct_nontrivial=len(v["nontrivial"]),
                    inconclusive=v["inconclusive"],
                    wall_s=round(v["wall"], 1),
                )
                for k, v in per_sub.items()
            },
            class_histogram=dict(sorted(agg.labels.items())),
            excluded_known=agg.excluded_known,
            known_findings_hit=sorted(agg.known),
            inconclusive=agg.inconclusive,
            violations=vio_out,
            harness_errors=len(errors),
            tested_tree=REPO,
        ),
        assumptions=list(getattr(mod, "ASSUMPTIONS", []))
        + [
            "RDKit, networkx (as an independent reference only), Python fractions and Hypothesis are trusted",
            "a green run shows the property on the cases explored, not its absence of violations elsewhere",
        ],
        wall_s=round(time.time() - t0, 2),
        violations=len(uniq),
    )
    evdir = os.environ.get("VERIF_EVIDENCE_DIR") or os.path.join(VERIF_DIR, "evidence")
    os.makedirs(evdir, exist_ok=True)
    with open(os.path.join(evdir, f"{prop}.json"), "w") as fh:
        json.dump(evidence, fh, indent=1, default=str)
    print(
        f"{prop} tier={tier} seed={seed}: {agg.evaluations} cases, {distinct_nt} distinct non-trivial, "
        f"{agg.excluded_known} excluded as known, {agg.inconclusive} inconclusive, {len(uniq)} violation(s), "
        f"{time.time() - t0:.1f}s"
    )
    return rc
