"""C11 - automorphism groups and orbits are exact; the orbit estimate is a coarsening; match de-duplication
returns an order-preserving sub-list of its input.

Graph-level part.  The rule-application clause ("symmetry pruning never changes the set of distinct reactions
compared with gluing every raw match") is a separate sub-check: append its Sub to SUBS at the end of the file
(its RULE text goes into RULE_PARTS).
"""
from __future__ import annotations

import copy
import os

from hypothesis import strategies as st

from vlib import c11_ref as ref
from vlib import graph_gen
from vlib.oracles import iso
from vlib.runner import Inconclusive, Sub, Violation

PROPERTY = "C11"
from vlib.c11_pruning import body_pruning, enum_pruning_own, left_only_orbits, strat_pruning  # noqa: E402

RULE_PARTS = [
    "graphs: exhaustive over all labelled graphs on 0..4 nodes (quick: n<=3 over element{C,N} x charge{0,-1} x "
    "order{absent,1,2}, n=4 over element{C,N} x order{absent,1,2}, every 8th graph on 5 nodes over element{C,N} x "
    "order{absent,1}; thorough adds n=4 with charge and all of n=5 over element{C,N} x order{absent,1,2}), Hypothesis graphs <= 9 nodes (random labels, low-entropy labels, symmetric "
    "families with relabelled ids, disconnected graphs with isomorphic / one-edit twin components), each with "
    "generated key lists, missing attributes, anchor flag and refinement bound. Oracle: brute-force label-preserving "
    "automorphisms per component (count = product, orbits = union, swaps excluded), full-group orbits for the "
    "estimate, colour refinement re-implemented from its definition. Non-trivial = more than one automorphism; "
    "distinct by the JSON case.",
    "dedup: match lists = all brute-force monomorphisms of a generated pattern (<= 4 nodes, possibly disconnected, "
    "possibly cut out of the host) into a generated host (<= 7 nodes), reordered, with repeated and partial matches; "
    "every combination of pattern orbits {none, per-component exact, full-group exact, AutoEst}, pattern anchor "
    "{none, a component, AutoEst.anchor_component, arbitrary node set}, host orbits {none, exact, AutoEst}. "
    "Non-trivial = at least one match removed; distinct by the JSON case.",
]
RULE_PARTS.append(
    "rule application: (template reaction [optionally atom-map-renumbered], kind centre|full ITS, substrate own / same centre class / other, "
    "direction, strategy) -> set of own RDKit keys of SynReactor.smarts_list with pruning vs with every raw match glued; "
    "non-trivial = pruning removed >= 1 match"
)
RULE = " || ".join(RULE_PARTS)
ASSUMPTIONS = [
    "Automorphism: a missing attribute stands for charge=0 / order=1 / a value no generated label equals (other keys)",
    "AutoEst is only given graphs whose edge values are mutually orderable per key (all present or all absent): "
    "its neighbour signatures are sorted, a mix of None and numbers raises TypeError (outside the property)",
    "graphs are undirected and loop-free (Automorphism raises NetworkXError on DiGraph input)",
    "deduplicate_matches_with_anchor: the documented classes are asserted only for full matches and only when no "
    "pattern orbit lies partly inside the anchor (the docstring does not say what happens to such an orbit)",
]

AUT_LIMIT = 50000
DEF_OPT = dict(nkeys=None, ekeys=None, anchor_largest=True, est_nkeys=None, est_ekeys=None, max_iter=10, drop=[])


# ---------------------------------------------------------------- helpers
def _fmt(blocks):
    try:
        return sorted(sorted(b) for b in blocks)
    except TypeError:
        return sorted((sorted(b, key=repr) for b in blocks), key=repr)


def _build(case):
    g = graph_gen.to_nx(case)
    for kind, i, key in case.get("opt", {}).get("drop", []) or []:
        if kind == "n" and case["nodes"]:
            n = case["nodes"][i % len(case["nodes"])][0]
            g.nodes[n].pop(key, None)
        elif kind == "e" and case["edges"]:
            u, v, _ = case["edges"][i % len(case["edges"])]
            g.edges[u, v].pop(key, None)
    return g


def _edge_values_orderable(g, keys):
    for k in keys:
        vals = [d.get(k) for _, _, d in g.edges(data=True)]
        if any(v is None for v in vals) and any(v is not None for v in vals):
            return False
    return True


# ---------------------------------------------------------------- graphs: Automorphism / AutoEst / OrbitAccuracy
def body_graph(case, rec):
    from synkit.Graph.Matcher.auto_est import AutoEst
    from synkit.Graph.Matcher.automorphism import Automorphism
    from synkit.Graph.Matcher.orbit import OrbitAccuracy

    opt = dict(DEF_OPT, **(case.get("opt") or {}))
    g = _build(case)
    nodes = list(g.nodes)
    snapshot = graph_gen.from_nx(g)

    # ---- reference on the class's keys and missing-value convention
    nkeys = opt["nkeys"] if opt["nkeys"] else ["element", "charge"]
    ekeys = opt["ekeys"] if opt["ekeys"] else ["order"]
    nd, ed = ref.automorphism_class_defaults()
    try:
        nok, eok = ref.eq_default(nkeys, nd), ref.eq_default(ekeys, ed)
        analysis = ref.per_component_analysis(g, nok, eok, AUT_LIMIT)
        count, orbits, comps, _ = analysis
    except ref.TooMany:
        raise Inconclusive()
    connected = len(comps) <= 1
    if not connected and ref.full_group_orbits(g, nok, eok, AUT_LIMIT, analysis) != orbits:
        rec.label("isomorphic-components(swaps excluded)")
    rec.nt(count > 1)
    rec.label(
        "connected" if connected else "disconnected",
        f"n={len(nodes)}",
        "aut=1" if count == 1 else ("aut=2" if count == 2 else ("aut=3..12" if count <= 12 else "aut>12")),
    )
    if case.get("kind"):
        rec.label(f"kind={case['kind']}")
    if opt["drop"]:
        rec.label("missing-attributes")
    rec.show(dict(nodes=case["nodes"], edges=case["edges"], opt={k: v for k, v in opt.items() if v != DEF_OPT[k]}, automorphisms=count, orbits=_fmt(orbits)))

    # ---- Automorphism
    aut = Automorphism(g, node_attr_keys=opt["nkeys"], edge_attr_keys=opt["ekeys"], anchor_largest_component=opt["anchor_largest"])
    got_orbits = list(aut.orbits)
    got_count = aut.n_automorphisms
    where = f"nodes={case['nodes']} edges={case['edges']} keys={nkeys}/{ekeys}"
    if got_count != count:
        raise Violation("count", f"{where}: n_automorphisms={got_count}, brute force per component gives {count}")
    if len(got_orbits) != len(set(got_orbits)) or not ref.is_partition(got_orbits, nodes):
        raise Violation("orbits", f"{where}: orbits {_fmt(got_orbits)} are not a partition of the node set")
    if set(map(frozenset, got_orbits)) != orbits:
        raise Violation("orbits", f"{where}: orbits {_fmt(got_orbits)}, exchangeable classes are {_fmt(orbits)}")
    if len(aut) != len(orbits):
        raise Violation("orbits", f"{where}: len()={len(aut)} but {len(orbits)} orbits")
    if set(map(frozenset, aut.components)) != set(comps) or len(aut.components) != len(comps):
        raise Violation("components", f"{where}: components {_fmt(aut.components)} != {_fmt(comps)}")
    if bool(aut.is_connected) != connected:
        raise Violation("components", f"{where}: is_connected={aut.is_connected}")
    anchor = aut.anchor_component
    if connected:
        if anchor is not None:
            raise Violation("anchor", f"{where}: connected graph with anchor component {sorted(anchor)}")
    elif opt["anchor_largest"]:
        if anchor is None or frozenset(anchor) not in set(comps) or len(anchor) != max(map(len, comps)):
            raise Violation("anchor", f"{where}: anchor {anchor} is not a largest component of {_fmt(comps)}")
    # a second analyser on the same graph gives the same answer whichever attribute is read first
    aut2 = Automorphism(g, node_attr_keys=opt["nkeys"], edge_attr_keys=opt["ekeys"], anchor_largest_component=opt["anchor_largest"])
    if aut2.n_automorphisms != count or set(map(frozenset, aut2.orbits)) != orbits:
        raise Violation("count", f"{where}: reading n_automorphisms before orbits changes the result")
    if graph_gen.from_nx(g) != snapshot:
        raise Violation("graph-modified", f"{where}: Automorphism changed its input graph")

    # ---- AutoEst
    est_nkeys = list(opt["est_nkeys"]) if opt["est_nkeys"] is not None else ["element", "charge"]
    est_ekeys = list(opt["est_ekeys"]) if opt["est_ekeys"] is not None else ["order"]
    if not _edge_values_orderable(g, est_ekeys):
        rec.label("estimate-skipped:mixed-edge-values")
        return
    en, ee = ref.none_defaults()
    try:
        true_orbits = ref.full_group_orbits(g, ref.eq_default(est_nkeys, en), ref.eq_default(est_ekeys, ee), AUT_LIMIT)
    except ref.TooMany:
        raise Inconclusive()
    est = AutoEst(g, node_attrs=opt["est_nkeys"], edge_attrs=opt["est_ekeys"], max_iter=opt["max_iter"])
    if est.fit() is not est:
        raise Violation("estimate-api", "fit() does not return the estimator")
    eorb = list(est.orbits)
    ewhere = f"nodes={case['nodes']} edges={case['edges']} keys={est_nkeys}/{est_ekeys} max_iter={opt['max_iter']}"
    if not ref.is_partition(eorb, nodes):
        raise Violation("estimate-partition", f"{ewhere}: estimate {_fmt(eorb)} is not a partition of the node set")
    w = ref.split_witness(true_orbits, eorb)
    if w is not None:
        raise Violation(
            "estimate-splits-orbit",
            f"{ewhere}: nodes {w[0]} and {w[1]} are exchanged by an automorphism (orbits {_fmt(true_orbits)}) but the estimate separates them: {_fmt(eorb)}",
        )
    wl = ref.wl_partition(g, est_nkeys, est_ekeys, opt["max_iter"])
    rec.label("estimate=exact" if set(eorb) == true_orbits else "estimate>exact")
    if set(eorb) != wl:
        raise Violation("estimate-wl-classes", f"{ewhere}: estimate {_fmt(eorb)} != colour-refinement classes {_fmt(wl)}")
    if est.n_orbits != len(eorb) or len(est) != len(eorb):
        raise Violation("estimate-api", f"{ewhere}: n_orbits/len disagree with orbits")
    idx = est.orbit_index
    if set(idx) != set(nodes) or any(n not in eorb[idx[n]] for n in nodes):
        raise Violation("estimate-api", f"{ewhere}: orbit_index {idx} does not index orbits {_fmt(eorb)}")
    col = est.node_colors
    if {frozenset(n for n in nodes if col[n] == c) for c in set(col.values())} != set(eorb):
        raise Violation("estimate-api", f"{ewhere}: node_colors classes differ from orbits")
    all_comps = ref.components(g)
    ea = est.anchor_component
    if not nodes:
        if ea != frozenset():
            raise Violation("estimate-anchor", f"empty graph: anchor {ea}")
    else:
        best = max(all_comps, key=lambda c: (len(c), -min(c)))
        if frozenset(ea) != best:
            raise Violation("estimate-anchor", f"{ewhere}: anchor_component {sorted(ea)} != largest component (ties: smallest node) {sorted(best)}")
    if graph_gen.from_nx(g) != snapshot:
        raise Violation("graph-modified", f"{ewhere}: AutoEst changed its input graph")

    # ---- OrbitAccuracy on (estimate, exact)
    if nodes:
        exact_list = sorted(orbits, key=lambda o: sorted(map(repr, o)))
        m = OrbitAccuracy(eorb, exact_list).compute().metrics
        want = ref.accuracy_metrics(eorb, exact_list)
        for k, v in want.items():
            if k not in m or abs(m[k] - v) > 1e-12:
                raise Violation("orbit-accuracy", f"{ewhere}: {k}={m.get(k)} for approx={_fmt(eorb)} exact={_fmt(exact_list)}, definition gives {v}")


# ---------------------------------------------------------------- dedup
MATCH_NODE_KEYS = ["element", "charge"]
MATCH_EDGE_KEYS = ["order"]
MATCH_CAP = 300


def _orbits_from_source(src, g, AutoEst):
    nd, ed = ref.automorphism_class_defaults()
    nok, eok = ref.eq_default(MATCH_NODE_KEYS, nd), ref.eq_default(MATCH_EDGE_KEYS, ed)
    if src == "none":
        return None
    try:
        if src == "comp":
            _, orbs, _, _ = ref.per_component_analysis(g, nok, eok, AUT_LIMIT)
        elif src == "full":
            orbs = ref.full_group_orbits(g, nok, eok, AUT_LIMIT)
        elif src == "est":
            orbs = AutoEst(g, node_attrs=MATCH_NODE_KEYS, edge_attrs=MATCH_EDGE_KEYS).fit().orbits
        else:
            raise ValueError(src)
    except ref.TooMany:
        raise Inconclusive()
    return sorted((frozenset(o) for o in orbs), key=lambda o: (len(o), sorted(o)))


def _value_subsequence(out, ms):
    j = 0
    for o in out:
        while j < len(ms) and ms[j] != o:
            j += 1
        if j == len(ms):
            return False
        j += 1
    return True


def _identity_subsequence(out, ms):
    j = 0
    for o in out:
        while j < len(ms) and ms[j] is not o:
            j += 1
        if j == len(ms):
            return False
        j += 1
    return True


def build_matches(case):
    host, pat = graph_gen.to_nx(case["host"]), graph_gen.to_nx(case["pattern"])
    nd, ed = ref.automorphism_class_defaults()
    ms = list(iso.monomorphisms(pat, host, ref.eq_default(MATCH_NODE_KEYS, nd), ref.eq_default(MATCH_EDGE_KEYS, ed), limit=MATCH_CAP))
    # dicts keyed in pattern insertion order, as a matcher would return them
    pn = list(pat.nodes)
    ms = [{p: m[p] for p in pn} for m in ms]
    keys = case.get("order_keys") or [0]
    ms = [m for _, _, m in sorted(((keys[i % len(keys)], i, m) for i, m in enumerate(ms)), key=lambda t: t[:2])]
    if ms:
        for src, pos in case.get("dups") or []:
            ms.insert(pos % (len(ms) + 1), dict(ms[src % len(ms)]))
        for mi, ki in case.get("partial") or []:
            m = ms[mi % len(ms)]
            if len(m) > 1:
                del m[sorted(m)[ki % len(m)]]
    return host, pat, ms


def body_dedup(case, rec):
    from synkit.Graph.Matcher.auto_est import AutoEst
    from synkit.Graph.Matcher.dedup_matches import deduplicate_matches_with_anchor as dedup

    host, pat, ms = build_matches(case)
    porb = _orbits_from_source(case["porb"], pat, AutoEst)
    horb = _orbits_from_source(case["horb"], host, AutoEst)
    pcomps = sorted(ref.components(pat), key=lambda c: (-len(c), min(c)))
    pa = case["panchor"]
    if pa == "none":
        panchor = None
    elif pa == "est":
        panchor = AutoEst(pat, node_attrs=MATCH_NODE_KEYS, edge_attrs=MATCH_EDGE_KEYS).fit().anchor_component
    elif pa[0] == "comp":
        panchor = pcomps[pa[1] % len(pcomps)]
    else:  # ["nodes", picks] arbitrary subset of pattern nodes
        pn = list(pat.nodes)
        panchor = frozenset(pn[i % len(pn)] for i in pa[1])
    hanchor = None
    if case.get("hanchor") == "est":
        hanchor = AutoEst(host, node_attrs=MATCH_NODE_KEYS, edge_attrs=MATCH_EDGE_KEYS).fit().anchor_component

    kw = dict(pattern_orbits=porb, pattern_anchor=panchor, host_orbits=horb, host_anchor=hanchor)
    before = copy.deepcopy(ms)
    given = list(ms)
    out = dedup(ms, **kw)
    partial = any(len(m) != pat.number_of_nodes() for m in ms)
    args = f"pattern_orbits={None if porb is None else _fmt(porb)} pattern_anchor={None if panchor is None else sorted(panchor)} host_orbits={None if horb is None else _fmt(horb)}"
    where = f"{len(ms)} matches of pattern {case['pattern']} in host {case['host']}, {args}"

    removed = len(ms) - len(out) if isinstance(out, list) else 0
    rec.nt(removed > 0)
    rec.label(
        f"porb={case['porb']}", f"horb={case['horb']}", f"panchor={pa if isinstance(pa, str) else pa[0]}",
        "matches=0" if not ms else ("matches=1" if len(ms) == 1 else ("matches=2..20" if len(ms) <= 20 else "matches>20")),
        "removed>0" if removed else "removed=0", "partial" if partial else "full",
        "pattern-connected" if len(pcomps) == 1 else "pattern-disconnected",
    )
    rec.show(dict(pattern=case["pattern"], host=case["host"], args=args, n_matches=len(ms), kept=len(out) if isinstance(out, list) else None))

    if not isinstance(out, list) or any(not isinstance(o, dict) for o in out):
        raise Violation("sublist", f"{where}: result is not a list of dicts: {type(out).__name__}")
    if len(ms) != len(given) or any(a is not b for a, b in zip(ms, given)) or ms != before:
        raise Violation("input-modified", f"{where}: the input list or one of its matches was changed")
    if not _value_subsequence(out, ms):
        raise Violation("sublist", f"{where}: result {out} is not an order-preserving sub-list of the input {ms}")
    if not _identity_subsequence(out, ms):
        raise Violation("sublist-objects", f"{where}: result equals a sub-list of the input but is not made of the input's elements in their order")
    if ms and not out:
        raise Violation("classes", f"{where}: every match was removed")
    again = dedup(list(out), **kw)
    if len(again) != len(out) or any(a is not b for a, b in zip(again, out)):
        raise Violation("idempotent", f"{where}: de-duplicating the result again changes it ({len(out)} -> {len(again)})")

    # documented classes (full matches, rules decide): exactly one representative per class
    if porb is None and horb is None:
        if len(out) != len(ms) or any(a is not b for a, b in zip(out, ms)):
            raise Violation("classes", f"{where}: no orbit argument, yet the list changed ({len(ms)} -> {len(out)})")
        return
    if partial:
        return
    if porb is None and panchor is not None:
        rec.label("classes-not-asserted:anchor-without-pattern-orbits")
        return
    keys_in = [ref.dedup_class_key(m, porb, panchor, horb) for m in ms]
    if any(k is ref._MISSING for k in keys_in):
        rec.label("classes-not-asserted:orbit-partly-anchored")
        return
    rec.label("classes-asserted")
    if case["porb"] == "comp" and panchor is None and horb is None and len(pcomps) == 1 and ms:
        # information only (the rule-application sub-check decides whether it matters): the documented signature
        # (multiset of images per orbit) can merge matches that no pattern automorphism maps onto each other
        nd, ed = ref.automorphism_class_defaults()
        autos = iso.isomorphisms(pat, pat, ref.eq_default(MATCH_NODE_KEYS, nd), ref.eq_default(MATCH_EDGE_KEYS, ed))
        autos = list(autos)
        true_classes = {frozenset(tuple(sorted((p, m[s[p]]) for p in m)) for s in autos) for m in ms}
        rec.label("kept<classes-up-to-pattern-automorphism(info)" if len(out) < len(true_classes) else "kept=classes-up-to-pattern-automorphism(info)")
    keys_out = [ref.dedup_class_key(m, porb, panchor, horb) for m in out]
    if len(set(keys_out)) != len(keys_out):
        raise Violation("classes", f"{where}: two kept matches fall in one documented class: {out}")
    if set(keys_out) != set(keys_in):
        lost = next(m for m, k in zip(ms, keys_in) if k not in set(keys_out))
        raise Violation("classes", f"{where}: match {lost} has no equivalent among the kept matches {out}")


# ---------------------------------------------------------------- generators: graphs
def enum_graphs(tier):
    full = tier == "thorough"
    yield {"nodes": [], "edges": []}
    two = {"element": ["C", "N"], "charge": [0, -1]}
    one = {"element": ["C", "N"]}
    orders = [{"order": 1}, {"order": 2}]
    for n in (1, 2, 3):
        yield from graph_gen.enum_graphs(n, two, orders)
    yield from graph_gen.enum_graphs(4, one, orders)
    if full:
        yield from graph_gen.enum_graphs(4, two, orders, first_id=3)
        yield from graph_gen.enum_graphs(5, one, orders)
    else:
        # n = 5 slice: one edge label, every 8th graph (offset by the seed)
        off = int(os.environ.get("VERIF_SEED", "1") or 1) % 8
        for i, c in enumerate(graph_gen.enum_graphs(5, one, [{"order": 1}])):
            if i % 8 == off:
                yield c


NODE_FULL = graph_gen.node_attr_strategy(elements=("C", "C", "N"), charges=(0, 0, -1), hcounts=(0, 1), aromatic=(False, True))
NODE_LOW = st.sampled_from([("C", 0), ("C", 0), ("C", 0), ("N", 0), ("C", -1)]).map(lambda t: dict(element=t[0], charge=t[1], hcount=0, aromatic=False))
NODE_ONE = st.just(dict(element="C", charge=0, hcount=0, aromatic=False))
EDGE_FULL = st.fixed_dictionaries(dict(order=st.sampled_from([1, 1, 2, 1.5]), ring=st.booleans()))
EDGE_LOW = st.fixed_dictionaries(dict(order=st.sampled_from([1, 1, 1, 2]), ring=st.just(False)))
EDGE_ONE = st.just(dict(order=1, ring=False))


def opt_strategy():
    return st.fixed_dictionaries(
        dict(
            nkeys=st.sampled_from([None, None, None, ["element"], ["element", "charge"], ["element", "hcount"], ["hcount", "aromatic"], ["charge"]]),
            ekeys=st.sampled_from([None, None, ["order"], ["order", "ring"], ["ring"]]),
            anchor_largest=st.sampled_from([True, True, False]),
            est_nkeys=st.sampled_from([None, None, [], ["element"], ["element", "charge", "aromatic", "hcount"]]),
            est_ekeys=st.sampled_from([None, None, [], ["order"], ["order", "ring"]]),
            max_iter=st.sampled_from([10, 10, 10, 0, 1, 2, 3]),
            drop=st.one_of(
                st.just([]), st.just([]),
                st.lists(st.tuples(st.sampled_from(["n", "n", "e"]), st.integers(0, 20), st.sampled_from(["element", "charge", "hcount", "order"])).map(list), min_size=1, max_size=3),
            ),
        )
    )


@st.composite
def twins(draw):
    """Disconnected graph with a relabelled copy (or one-edit neighbour of a copy) of a component."""
    base = draw(graph_gen.graphs(min_nodes=1, max_nodes=4, node_attrs=NODE_LOW, edge_attrs=EDGE_LOW, connected=True, id_pool=20))
    parts = [base]
    for k in range(draw(st.integers(1, 2))):
        cp, _ = draw(graph_gen.relabelled(base, id_pool=20))
        if draw(st.booleans()) and draw(st.booleans()):
            cp, _ = draw(graph_gen.one_edit(cp, node_alts={"element": ["C", "N"], "charge": [0, -1]}, edge_alts={"order": [1, 2], "ring": [False, True]}))
        off = 100 * (k + 1)
        parts.append({"nodes": [[n + off, a] for n, a in cp["nodes"]], "edges": [[u + off, v + off, a] for u, v, a in cp["edges"]]})
    if draw(st.booleans()):
        extra = draw(graph_gen.graphs(min_nodes=1, max_nodes=3, node_attrs=NODE_LOW, edge_attrs=EDGE_LOW, connected=True, id_pool=20))
        parts.append({"nodes": [[n + 500, a] for n, a in extra["nodes"]], "edges": [[u + 500, v + 500, a] for u, v, a in extra["edges"]]})
    order = draw(st.permutations(range(len(parts))))
    nodes = [x for i in order for x in parts[i]["nodes"]]
    edges = [x for i in order for x in parts[i]["edges"]]
    if draw(st.booleans()):
        nodes = list(draw(st.permutations(nodes)))
    return {"nodes": nodes, "edges": edges, "kind": "twins"}


@st.composite
def family(draw):
    c = draw(graph_gen.symmetric_graphs(node_attrs=st.one_of(NODE_ONE, NODE_LOW), edge_attrs=st.one_of(EDGE_ONE, EDGE_LOW), uniform=draw(st.booleans())))
    name = c.pop("family")
    c2, _ = draw(graph_gen.relabelled(c, id_pool=60))
    c2["kind"] = "family"
    c2["family"] = name
    return c2


def strat_graphs(tier):
    rnd = graph_gen.graphs(min_nodes=1, max_nodes=9, node_attrs=NODE_FULL, edge_attrs=EDGE_FULL, max_components=3).map(lambda c: dict(c, kind="random"))
    low = graph_gen.graphs(min_nodes=2, max_nodes=9, node_attrs=NODE_LOW, edge_attrs=EDGE_LOW, max_components=3, extra_edge_p=0.4).map(lambda c: dict(c, kind="low-entropy"))
    # uniform labels: keep <= 8 nodes so that a complete graph stays enumerable
    uni = graph_gen.graphs(min_nodes=2, max_nodes=8, node_attrs=NODE_ONE, edge_attrs=st.one_of(EDGE_ONE, EDGE_LOW), max_components=2, extra_edge_p=0.5).map(lambda c: dict(c, kind="uniform"))
    g = st.one_of(rnd, low, low, uni, family(), twins())
    return st.builds(lambda c, o: dict(c, opt=o), g, opt_strategy())


# ---------------------------------------------------------------- generators: dedup
@st.composite
def cut_pattern(draw, host):
    """A pattern cut out of the host: chosen nodes, a subset of the induced edges, fresh ids (so >= 1 match)."""
    ids = [n for n, _ in host["nodes"]]
    k = draw(st.integers(1, min(4, len(ids))))
    pick = draw(st.lists(st.sampled_from(ids), min_size=k, max_size=k, unique=True))
    attrs = dict((n, a) for n, a in host["nodes"])
    inside = [e for e in host["edges"] if e[0] in pick and e[1] in pick]
    keep = [e for e in inside if draw(st.integers(0, 3)) > 0]
    sub = {"nodes": [[n, dict(attrs[n])] for n in pick], "edges": [[u, v, dict(a)] for u, v, a in keep]}
    out, _ = draw(graph_gen.relabelled(sub, id_pool=30))
    return out


@st.composite
def dedup_case(draw):
    na = draw(st.sampled_from([NODE_ONE, NODE_LOW, NODE_LOW]))
    ea = draw(st.sampled_from([EDGE_ONE, EDGE_LOW]))
    hk = draw(st.sampled_from(["graph", "graph", "family"]))
    if hk == "family":
        host = draw(graph_gen.symmetric_graphs(node_attrs=na, edge_attrs=ea, uniform=True))
        host.pop("family")
        if len(host["nodes"]) > 7:
            host = draw(graph_gen.graphs(min_nodes=2, max_nodes=7, node_attrs=na, edge_attrs=ea, max_components=2, extra_edge_p=0.5))
    else:
        host = draw(graph_gen.graphs(min_nodes=2, max_nodes=7, node_attrs=na, edge_attrs=ea, max_components=2, extra_edge_p=0.5))
    pk = draw(st.sampled_from(["cut", "cut", "cut", "free", "twin", "family"]))
    if pk == "cut":
        pattern = draw(cut_pattern(host))
    elif pk == "family":
        fams = graph_gen.symmetric_families()
        n, es = fams[draw(st.sampled_from(["path3", "path4", "star4", "cycle3", "cycle4", "K4"]))]
        pattern = {"nodes": [[i + 1, draw(na)] for i in range(n)], "edges": [[u + 1, v + 1, draw(ea)] for u, v in es]}
        pattern, _ = draw(graph_gen.relabelled(pattern, id_pool=30))
    elif pk == "free":
        pattern = draw(graph_gen.graphs(min_nodes=1, max_nodes=4, node_attrs=na, edge_attrs=ea, max_components=2, id_pool=30))
    else:
        # two isomorphic components (orbits of the estimate straddle them; exact per-component orbits do not)
        base = draw(graph_gen.graphs(min_nodes=1, max_nodes=2, node_attrs=na, edge_attrs=ea, connected=True, id_pool=9))
        cp, _ = draw(graph_gen.relabelled(base, id_pool=9))
        pattern = {"nodes": base["nodes"] + [[n + 10, a] for n, a in cp["nodes"]], "edges": base["edges"] + [[u + 10, v + 10, a] for u, v, a in cp["edges"]]}
    porb = draw(st.sampled_from(["none", "comp", "comp", "full", "est", "est"]))
    horb = draw(st.sampled_from(["none", "none", "none", "comp", "full", "est"]))
    panchor = draw(
        st.one_of(
            st.just("none"), st.just("none"), st.just("est"),
            st.tuples(st.just("comp"), st.integers(0, 3)).map(list),
            st.tuples(st.just("nodes"), st.lists(st.integers(0, 7), min_size=1, max_size=3)).map(list),
        )
    )
    return dict(
        host=host, pattern=pattern, porb=porb, horb=horb, panchor=panchor,
        hanchor=draw(st.sampled_from(["none", "none", "est"])),
        order_keys=draw(st.one_of(st.just([0]), st.lists(st.integers(0, 9), min_size=2, max_size=24))),
        dups=draw(st.one_of(st.just([]), st.lists(st.tuples(st.integers(0, 50), st.integers(0, 50)).map(list), max_size=3))),
        partial=draw(st.one_of(st.just([]), st.just([]), st.lists(st.tuples(st.integers(0, 50), st.integers(0, 5)).map(list), min_size=1, max_size=3))),
    )


def strat_dedup(tier):
    return dedup_case()


SUBS = [
    Sub("graphs_exhaustive", body_graph, enum=enum_graphs, exhaustive=("thorough",), shards={"quick": 16, "thorough": 16},
        doc="all labelled graphs n<=4 (quick; plus every 8th single-edge-label graph on 5 nodes), n<=5 (thorough, complete over the stated alphabets); default keys"),
    Sub("graphs_random", body_graph, strategy=strat_graphs, examples={"quick": 12000, "thorough": 200000}, shards={"quick": 16, "thorough": 16},
        doc="Hypothesis graphs <= 9 nodes incl. symmetric families and twin components, generated key lists / missing attributes / refinement bound"),
    Sub("dedup", body_dedup, strategy=strat_dedup, examples={"quick": 12000, "thorough": 200000}, shards={"quick": 16, "thorough": 16},
        doc="deduplicate_matches_with_anchor on brute-force match lists: order-preserving sub-list made of the input's elements, input untouched, idempotent, one representative per documented class"),
    Sub("pruning_own_pairs", body_pruning, enum=enum_pruning_own, exhaustive=True, shards={"quick": 16, "thorough": 16},
        doc="pruned vs raw on every eligible corpus reaction with its own substrate, both directions (centre templates; thorough adds full ITS)"),
    Sub("pruning_vs_raw", body_pruning, strategy=strat_pruning, examples={"quick": 1600, "thorough": 40000}, shards={"quick": 16, "thorough": 16},
        doc="SynReactor with its symmetry pruning vs the same reactor fed every raw SubgraphSearchEngine match: identical sets of distinct reactions (own RDKit keys); pruned matches are a sub-list of the raw ones"),
]
KNOWN_PREDICATES = dict(globals().get("KNOWN_PREDICATES", {}), left_only_orbits=left_only_orbits)
