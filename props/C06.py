"""C06 - SubgraphSearchEngine.find_subgraph_mappings returns exactly the label-preserving monomorphisms.

Oracle: a reference enumeration of injective pattern->host maps written from the definition (back-tracking,
cross-checked against the literal cartesian enumeration), filtered by our own component bookkeeping for the
component-aware strategy; compared as sets in both directions, plus duplicates / input mutation / limits.
"""
from __future__ import annotations

import os

from hypothesis import strategies as st

from vlib import c0607_common as cm
from vlib import graph_gen
from vlib.runner import Sub, Violation

PROPERTY = "C06"
RULE = (
    "cases = (host, pattern, configuration). Exhaustive slice: one representative of every isomorphism class of "
    "host graphs on <= 4 nodes x pattern graphs on <= 3 nodes over element {C,N} x hcount {0,1} x order {1,2} "
    "(hosts on 4 nodes: seeded 1/40 slice in the quick tier, all in thorough), every strategy x strict_cc_count, "
    "and max_results=1 / threshold=1 whenever >= 2 embeddings exist. Random: Hypothesis patterns <= 4 nodes with "
    "1-3 components, hosts <= 9 nodes built constructively (pattern planted once or twice with raised hcounts, "
    "extra context nodes, extra / bridging edges, fresh shuffled ids) or drawn independently; node_attrs / "
    "edge_attrs selections incl. a second edge key and an unselected differing attribute, absent hcount; "
    "strategies all/comp/bt x strict_cc_count x pre_filter x max_results {None,1,2,5} x threshold {None,1,3,10}. "
    "Non-trivial = pattern with >= 2 components and >= 2 embeddings, or a limit that actually truncates/empties; "
    "distinct by (host, pattern, configuration)."
)
ASSUMPTIONS = [
    "pattern has at least one node; selected attributes are present on every node/edge (hcount may be absent = 0)",
    "max_results >= 1 and threshold >= 1 when given; graph sizes keep the pre-filter's 10^4 x threshold estimate guard out of reach",
    "which embeddings survive a truncation is not asserted, only that they are min(max_results, total) distinct members "
    "of the unlimited answer; with max_results and threshold both set the component-aware strategies are only "
    "required to return a duplicate-free subset within both bounds",
]

STRATS = ("all", "comp", "bt")


def _node_ok(node_attrs):
    def f(pd, hd):
        return all(pd.get(k) == hd.get(k) for k in node_attrs) and hd.get("hcount", 0) >= pd.get("hcount", 0)

    return f


def _edge_ok(edge_attrs):
    def f(pe, he):
        return all(pe.get(k) == he.get(k) for k in edge_attrs)

    return f


def reference(host, pattern, node_attrs, edge_attrs):
    """-> dict with the reference answers of the three strategies (strict and non-strict) and the per-component counts."""
    nok, eok = _node_ok(node_attrs), _edge_ok(edge_attrs)
    all_maps = cm.monos(pattern, host, nok, eok)
    pcomps, pcomp_of = cm.components(pattern)
    hcomps, hcomp_of = cm.components(host)
    pcc, hcc = len(pcomps), len(hcomps)
    reps = [c[0] for c in pcomps]

    def distinct(m):
        img = [hcomp_of[m[r]] for r in reps]
        return len(set(img)) == len(img)

    ref = {"all": all_maps, "pcc": pcc, "hcc": hcc}
    comp_any = [m for m in all_maps if distinct(m)]
    for strict in (True, False):
        if hcc < pcc:
            comp = all_maps
        elif hcc > pcc and strict:
            comp = []
        else:
            comp = comp_any
        ref["comp", strict] = comp
        ref["bt", strict] = comp if comp else all_maps
    # embeddings of each pattern component on its own (what the per-component threshold guard counts)
    ref["per_cc"] = [len(cm.monos(pattern.subgraph(c), host, nok, eok)) for c in pcomps] if hcc >= pcc else []
    return ref


def _as_set(res, pattern, where):
    if not isinstance(res, list):
        raise Violation("result-shape", f"{where}: result is {type(res).__name__}, not a list")
    keys = []
    pn = set(pattern.nodes)
    for m in res:
        if not isinstance(m, dict) or set(m) != pn:
            raise Violation("result-shape", f"{where}: entry {m!r} is not a map defined on the pattern nodes {sorted(pn)}")
        keys.append(cm.key_of(m))
    if len(set(keys)) != len(keys):
        dup = sorted(k for k in set(keys) if keys.count(k) > 1)[:2]
        raise Violation("duplicates", f"{where}: {len(keys) - len(set(keys))} duplicate mapping(s), e.g. {dup}")
    return set(keys)


def _call(host, pattern, strategy, cfg, strict, max_results=None, threshold=None, pre_filter=False):
    from synkit.Graph.Matcher.subgraph_matcher import SubgraphSearchEngine

    return SubgraphSearchEngine.find_subgraph_mappings(
        host,
        pattern,
        node_attrs=list(cfg["node_attrs"]),
        edge_attrs=list(cfg["edge_attrs"]),
        strategy=strategy,
        max_results=max_results,
        strict_cc_count=strict,
        threshold=threshold,
        pre_filter=pre_filter,
    )


def _fmt(keys, n=3):
    ks = sorted(keys)
    return str([dict(k) for k in ks[:n]]) + ("..." if len(ks) > n else "")


def check_unlimited(host, pattern, cfg, ref, stricts, pre_filter, tag):
    for strategy in STRATS:
        for strict in stricts if strategy != "all" else stricts[:1]:
            where = f"{tag}strategy={strategy} strict_cc_count={strict} pre_filter={pre_filter}"
            got = _as_set(_call(host, pattern, strategy, cfg, strict, pre_filter=pre_filter), pattern, where)
            want = set(map(cm.key_of, ref["all"] if strategy == "all" else ref[strategy, strict]))
            if got != want:
                missing, extra = want - got, got - want
                raise Violation(
                    f"{strategy}-set",
                    f"{where}: {len(got)} mappings returned, reference has {len(want)} "
                    f"(pattern components {ref['pcc']}, host components {ref['hcc']}); "
                    f"missing {_fmt(missing)} unexpected {_fmt(extra)}",
                )


def check_limits(host, pattern, cfg, ref, strict, k, t, pre_filter, tag, rec=None):
    """max_results=k and/or threshold=t (either may be None)."""
    truncates = False
    for strategy in STRATS:
        where = f"{tag}strategy={strategy} strict_cc_count={strict} max_results={k} threshold={t} pre_filter={pre_filter}"
        got = _as_set(_call(host, pattern, strategy, cfg, strict, max_results=k, threshold=t, pre_filter=pre_filter), pattern, where)
        full = set(map(cm.key_of, ref["all"] if strategy == "all" else ref[strategy, strict]))
        everything = set(map(cm.key_of, ref["all"]))
        total = len(full)
        comp_path = strategy != "all" and ref["hcc"] >= ref["pcc"] and not (strict and ref["hcc"] > ref["pcc"])
        if (k is not None and k < total) or (t is not None and t < total):
            truncates = True
        # never anything the unlimited search does not return; only a threshold lets bt fall back to the
        # exhaustive set although component-respecting embeddings exist (the unasserted band)
        universe = everything if (strategy == "bt" and t is not None) else full
        if not got <= universe:
            raise Violation("limit-subset", f"{where}: returned {_fmt(got - universe)} which the unlimited search does not return")
        if k is not None and len(got) > k:
            raise Violation("limit-max-results", f"{where}: {len(got)} mappings returned")
        if t is not None and len(got) > t:
            raise Violation("limit-threshold", f"{where}: {len(got)} mappings returned, more than the threshold")
        if strategy == "all" or not comp_path:
            # plain VF2 enumeration (for comp/bt: host has fewer components, or strict count mismatch)
            # `full` is the exhaustive set here (or empty for comp under a strict component-count mismatch)
            seen = total if k is None else min(k, total)
            want_len = 0 if (t is not None and seen > t) else seen
            if len(got) != want_len:
                raise Violation(
                    "limit-count",
                    f"{where}: {len(got)} mappings returned, expected {want_len} (unlimited answer has {total})",
                )
        elif t is None:
            # component-aware path, max_results only: a limit truncates, it never empties or changes the answer
            if len(got) != min(k, total):
                raise Violation(
                    "limit-count-comp",
                    f"{where}: {len(got)} mappings returned although the unlimited answer has {total} "
                    f"(pattern components {ref['pcc']}, host components {ref['hcc']})",
                )
        elif k is None:
            # component-aware path, threshold only
            if total > t:
                if got:
                    raise Violation("threshold-empty", f"{where}: {total} embeddings exceed the threshold but {len(got)} were returned")
            elif all(c <= t for c in ref["per_cc"]):
                if got != full:
                    raise Violation(
                        "threshold-full",
                        f"{where}: total {total} and per-component counts {ref['per_cc']} are within the threshold, "
                        f"{len(got)} of {total} returned; missing {_fmt(full - got)}",
                    )
            elif rec is not None:
                rec.label("threshold-band")
    return truncates


def _mutation_guard(host, pattern):
    return cm.snapshot(host), cm.snapshot(pattern)


def _check_unmodified(before, host, pattern, tag):
    after = _mutation_guard(host, pattern)
    if after != before:
        which = "host" if after[0] != before[0] else "pattern"
        raise Violation("input-mutated", f"{tag}the {which} graph passed to find_subgraph_mappings was modified by the search")


def _classify(rec, ref, planted=None):
    pcc, hcc, n_all = ref["pcc"], ref["hcc"], len(ref["all"])
    rec.label(f"pcc={pcc}", "hcc<pcc" if hcc < pcc else "hcc=pcc" if hcc == pcc else "hcc>pcc")
    rec.label("emb=0" if n_all == 0 else "emb=1" if n_all == 1 else "emb=2-9" if n_all < 10 else "emb>=10")
    if len(ref["comp", False]) not in (0, n_all):
        rec.label("comp-proper-subset")
    if n_all and not ref["comp", True]:
        rec.label("bt-falls-back")
    if planted is not None:
        rec.label(f"host={planted}")


# ------------------------------------------------------------------ attribution predicate (only used if the
# per-component max_results cut-off is recorded as a known finding instead of being repaired)
def comp_per_component_cutoff(case, v, m):
    """True iff the violation is explained by _find_component_aware_subgraph_mappings cutting each pattern
    component's candidate list at max_results before combining them: a limit-count-comp / limit-subset failure of
    comp or bt with max_results set, no threshold, a pattern of >= 2 components on the component-aware path, and
    some component with at least max_results candidates (otherwise nothing was cut)."""
    if v.clause not in ("limit-count-comp", "limit-subset") or "strategy=all" in v.message:
        return False
    cfg = case.get("cfg") or dict(EX_CFG, max_results=1, threshold=None)
    k = cfg.get("max_results")
    if k is None or cfg.get("threshold") is not None or "threshold=None" not in v.message:
        return False
    host, pattern = cm.to_nx(case["host"]), cm.to_nx(case["pattern"])
    ref = reference(host, pattern, cfg["node_attrs"], cfg["edge_attrs"])
    return ref["pcc"] >= 2 and ref["hcc"] >= ref["pcc"] and any(c >= k for c in ref["per_cc"])


KNOWN_PREDICATES = {"comp_per_component_cutoff": comp_per_component_cutoff}


# ------------------------------------------------------------------ exhaustive slice
EX_NODE = [dict(element=e, hcount=h) for e in ("C", "N") for h in (0, 1)]
EX_EDGE = [dict(order=1), dict(order=2)]
EX_CFG = {"node_attrs": ["element"], "edge_attrs": ["order"]}


def enum_small(tier):
    seed = int(os.environ.get("VERIF_SEED", "1") or 1)
    pats = [p for n in (1, 2, 3) for p in cm.class_reps(n, EX_NODE, EX_EDGE, first_id=11)]
    step = 1 if tier == "thorough" else 40
    for hn in (1, 2, 3, 4):
        hosts = cm.class_reps(hn, EX_NODE, EX_EDGE)
        for i, h in enumerate(hosts):
            if hn == 4 and step > 1 and (i + seed) % step:
                continue
            for p in pats:
                yield {"host": h, "pattern": p}


def body_small(case, rec):
    host, pattern = cm.to_nx(case["host"]), cm.to_nx(case["pattern"])
    ref = reference(host, pattern, EX_CFG["node_attrs"], EX_CFG["edge_attrs"])
    before = _mutation_guard(host, pattern)
    check_unlimited(host, pattern, EX_CFG, ref, (True, False), False, "")
    trunc = False
    if len(ref["all"]) >= 2:
        for strict in (True, False):
            trunc |= check_limits(host, pattern, EX_CFG, ref, strict, 1, None, False, "", rec)
            trunc |= check_limits(host, pattern, EX_CFG, ref, strict, None, 1, False, "", rec)
    _check_unmodified(before, host, pattern, "")
    _classify(rec, ref)
    rec.nt((ref["pcc"] >= 2 and len(ref["all"]) >= 2) or trunc)
    if trunc:
        rec.label("limit-truncates")


# ------------------------------------------------------------------ random pairs
NODE_ST = cm.node_attrs_st()
EDGE_ST = cm.edge_attrs_st()
NODE_SELECTIONS = [["element"], ["element", "charge"], ["element", "charge"], ["charge"], []]
EDGE_SELECTIONS = [["order"], ["order"], ["order", "ring"], ["ring", "order"], []]


@st.composite
def pair_strategy(draw):
    pattern = draw(graph_gen.graphs(min_nodes=1, max_nodes=4, node_attrs=NODE_ST, edge_attrs=EDGE_ST, max_components=3, id_pool=30))
    kind = draw(st.sampled_from(["planted", "planted", "planted2", "independent"]))
    if kind == "planted2" and 2 * len(pattern["nodes"]) > 9:
        kind = "planted"
    if kind == "independent":
        host = draw(graph_gen.graphs(min_nodes=1, max_nodes=9, node_attrs=NODE_ST, edge_attrs=EDGE_ST, max_components=3, id_pool=40))
    else:
        host = draw(cm.planted_host(pattern, NODE_ST, EDGE_ST, max_nodes=9, copies=2 if kind == "planted2" else 1))
    return {"host": host, "pattern": pattern, "kind": kind}


@st.composite
def isomer_hosts(draw):
    """Hosts made of 2-3 components that are rearrangements of one another (same atom-label multiset, same bond-label
    multiset, trees on 3-4 nodes, e.g. C-O-C . C-C-O) and a pattern taken from ONE of them (optionally plus a second
    one-node component): per-component bookkeeping keyed on label/degree invariants confuses such components."""
    k = draw(st.integers(3, 4))
    labels = [draw(NODE_ST) for _ in range(k)]
    orders = [draw(EDGE_ST) for _ in range(k - 1)]
    ncomp = draw(st.integers(2, 3 if k == 3 else 2))
    nodes, edges, comps = [], [], []
    nid = 1
    for _ in range(ncomp):
        lab = list(draw(st.permutations(labels)))
        ids = list(range(nid, nid + k))
        nid += k
        es = []
        for i in range(1, k):
            j = draw(st.integers(0, i - 1))
            es.append([ids[j], ids[i], dict(orders[i - 1])])
        nodes += [[i, dict(a)] for i, a in zip(ids, lab)]
        edges += es
        comps.append((ids, lab, es))
    ids, lab, es = comps[draw(st.integers(0, ncomp - 1))]
    # pattern: a connected piece (1-2 bonds) of that component, fresh ids
    take = draw(st.integers(1, len(es)))
    chosen = es[:take] if draw(st.booleans()) else es[-take:]
    pn = sorted({u for u, v, _ in chosen} | {v for u, v, _ in chosen})
    ren = {n: 100 + t for t, n in enumerate(pn)}
    attr = dict(zip(ids, lab))
    pat_nodes = [[ren[n], dict(attr[n], hcount=0) if "hcount" in attr[n] else dict(attr[n])] for n in pn]
    pat_edges = [[ren[u], ren[v], dict(a)] for u, v, a in chosen]
    # keep the pattern connected: drop edges not attached to the first chosen one
    import networkx as _nx

    g = _nx.Graph()
    g.add_nodes_from(n for n, _ in pat_nodes)
    g.add_edges_from((u, v) for u, v, _ in pat_edges)
    keep = max(_nx.connected_components(g), key=len)
    pat_nodes = [x for x in pat_nodes if x[0] in keep]
    pat_edges = [x for x in pat_edges if x[0] in keep and x[1] in keep]
    if draw(st.booleans()):
        extra = draw(NODE_ST)
        pat_nodes.append([199, dict(extra, hcount=0) if "hcount" in extra else dict(extra)])
    order = draw(st.permutations(list(range(len(nodes)))))
    host = {"nodes": [nodes[i] for i in order], "edges": list(draw(st.permutations(edges)))}
    return {"host": host, "pattern": {"nodes": pat_nodes, "edges": pat_edges}, "kind": "isomer-components"}


def cfg_strategy(limits):
    d = dict(
        node_attrs=st.sampled_from(NODE_SELECTIONS),
        edge_attrs=st.sampled_from(EDGE_SELECTIONS),
        strict=st.booleans(),
        pre_filter=st.booleans(),
    )
    if limits:
        d["max_results"] = st.sampled_from([None, 1, 2, 5])
        d["threshold"] = st.sampled_from([None, 1, 3, 10])
    return st.fixed_dictionaries(d)


def strat_unlimited(tier):
    return st.builds(lambda p, c: dict(p, cfg=c), st.one_of(pair_strategy(), pair_strategy(), isomer_hosts()), cfg_strategy(False))


def strat_limits(tier):
    return st.builds(lambda p, c: dict(p, cfg=c), pair_strategy(), cfg_strategy(True)).filter(
        lambda c: c["cfg"]["max_results"] is not None or c["cfg"]["threshold"] is not None
    )


def body_random(case, rec):
    host, pattern = cm.to_nx(case["host"]), cm.to_nx(case["pattern"])
    cfg = case["cfg"]
    ref = reference(host, pattern, cfg["node_attrs"], cfg["edge_attrs"])
    before = _mutation_guard(host, pattern)
    k, t = cfg.get("max_results"), cfg.get("threshold")
    trunc = False
    if k is None and t is None:
        check_unlimited(host, pattern, cfg, ref, (cfg["strict"], not cfg["strict"]), cfg["pre_filter"], "")
    else:
        trunc = check_limits(host, pattern, cfg, ref, cfg["strict"], k, t, cfg["pre_filter"], "", rec)
    _check_unmodified(before, host, pattern, "")
    _classify(rec, ref, case.get("kind"))
    rec.nt((ref["pcc"] >= 2 and len(ref["all"]) >= 2) or trunc)
    if trunc:
        rec.label("limit-truncates")
    rec.show(
        dict(
            pattern_nodes=pattern.number_of_nodes(),
            host_nodes=host.number_of_nodes(),
            pattern_components=ref["pcc"],
            host_components=ref["hcc"],
            embeddings=len(ref["all"]),
            component_respecting=len(ref["comp", False]),
            cfg=cfg,
        )
    )


SUBS = [
    Sub(
        "exhaustive_small",
        body_small,
        enum=enum_small,
        exhaustive=("thorough",),
        shards={"quick": 16, "thorough": 16},
        doc="every isomorphism class of hosts <= 4 nodes x patterns <= 3 nodes (element x hcount x order); all/comp/bt x strict; limits 1",
    ),
    Sub(
        "random_unlimited",
        body_random,
        strategy=strat_unlimited,
        examples={"quick": 14000, "thorough": 120000},
        shards={"quick": 16, "thorough": 16},
        doc="planted / independent hosts <= 9 nodes, patterns <= 4 nodes, attribute selections, pre_filter; result set == reference",
    ),
    Sub(
        "random_limits",
        body_random,
        strategy=strat_limits,
        examples={"quick": 14000, "thorough": 120000},
        shards={"quick": 16, "thorough": 16},
        doc="same pairs with max_results / threshold: subset, size bounds, emptied past the threshold, full set within it",
    ),
]
