"""C08 - graph canonicalisation is faithful and sound; the exact (nauty) back-end is invariant.

Clauses (one Violation bucket each)
  faithful-*      canonical graph = input relabelled by a bijection onto 1..N, every node/edge attribute kept,
                  same graph class, input untouched
  deterministic   same object / equal copy / fresh canonicaliser -> same signature
  sound-*         equal signatures => isomorphic on the attributes the signature covers (all back-ends)
  complete-*      nauty only: isomorphic => identical signature and identical canonical graph; CanonicalGraph,
                  SynGraph, SynRule built on a nauty canonicaliser are equal / hash equal iff isomorphic

Reference = vlib/oracles/iso.py (plain backtracking, canonical form by minimum over permutations); no SynKit
code and no networkx matcher takes part in a verdict.
"""
from __future__ import annotations

import importlib
import itertools
import json
from collections import Counter

import networkx as nx
from hypothesis import strategies as st

from vlib import graph_gen as gg
from vlib.oracles import iso
from vlib.runner import Inconclusive, Sub, Violation

PROPERTY = "C08"
RULE = (
    "enumerated: every labelled graph of the listed domains (n <= 3 over element x order, charge x hcount, "
    "aromatic x ITS-style order/standard_order, n = 4 over element; n = 4 with two edge orders / two node "
    "attributes and n = 5 in thorough) on node ids 1..n - a domain is closed under all node permutations - each "
    "in all n! node insertion orders (3 for n >= 4) with natural and reversed+flipped edge insertion; per "
    "back-end the whole domain is grouped by signature and by the reference canonical form. Hypothesis: graphs "
    "up to 8 nodes (random spanning forest + extra edges, symmetric families: cycles, stars, K_mn, cube, prism, "
    "twin components) paired with a re-numbered, re-inserted, re-oriented copy of themselves or of a 1-2 edit "
    "neighbour (label swap, edge move, attribute change, edge add/delete); reaction templates from the corpus "
    "paired with re-numbered copies and with other templates. Non-trivial = at least two nodes share the covered "
    "node key (the labels alone do not fix the numbering) and, for enumerated graphs, another labelled graph of "
    "the domain shares the signature or the isomorphism class; for pairs, additionally the pair is either "
    "isomorphic under a non-identity renumbering or a near miss (same multisets of node and edge keys, not "
    "isomorphic). Distinct by the JSON case."
)
ASSUMPTIONS = [
    "graphs are simple networkx.Graph objects with integer node ids (molecular / ITS graphs); DiGraph inputs are covered for faithfulness and determinism only",
    "attribute schema is uniform: a node (edge) attribute is present on every node (edge) of both graphs or on none, "
    "every edge carries 'order', and one attribute has one Python type throughout (1 and 1.0 never both)",
    "the signature covers element, charge, aromatic, hcount on nodes and order, standard_order on edges "
    "(_default_node_key/_default_edge_key); isomorphism is claimed on these only",
    "for the converse (nauty) direction standard_order is absent or a function of order, as in ITS graphs "
    "(the nauty search is configured with edge_attrs=['order'])",
    "SynRule equality is documented as equality of the (left, right) fragment signatures: the reference is "
    "'left fragments isomorphic and right fragments isomorphic'",
]

BACKENDS = ("generic", "wl", "morgan", "nauty")
MODS = {"top": "synkit.Graph.canon_graph", "pkg": "synkit.Graph.Canon.canon_graph"}
COV_NODE = (("element", ""), ("charge", 0), ("aromatic", False), ("hcount", 0))
COV_EDGE = (("order", 0), ("standard_order", 0))


# ------------------------------------------------------------------ reference side
def nlabel(d):
    return tuple(d.get(k, dv) for k, dv in COV_NODE)


def elabel(d):
    return tuple(d.get(k, dv) for k, dv in COV_EDGE)


def node_ok(a, b):
    return nlabel(a) == nlabel(b)


def edge_ok(a, b):
    return elabel(a) == elabel(b)


def ref_iso(A, B):
    if Counter(map(repr, (nlabel(d) for _, d in A.nodes(data=True)))) != Counter(map(repr, (nlabel(d) for _, d in B.nodes(data=True)))):
        return False
    return iso.is_isomorphic(A, B, node_ok, edge_ok)


def ref_canon(G):
    return iso.canon_min(G, nlabel, elabel)


def tied_keys(G):
    c = Counter(repr(nlabel(d)) for _, d in G.nodes(data=True))
    return any(v >= 2 for v in c.values())


def key_multisets(G):
    return (
        sorted(repr(nlabel(d)) for _, d in G.nodes(data=True)),
        sorted(repr(elabel(d)) for _, _, d in G.edges(data=True)),
    )


def _tup(x):
    return tuple(_tup(v) for v in x) if isinstance(x, list) else x


def to_graph(case):
    """JSON case -> nx.Graph in the recorded insertion order (JSON lists in attributes become tuples: ITS orders)."""
    g = nx.Graph()
    for n, a in case["nodes"]:
        g.add_node(n, **{k: _tup(v) for k, v in a.items()})
    for u, v, a in case["edges"]:
        g.add_edge(u, v, **{k: _tup(x) for k, x in a.items()})
    return g


def content(G):
    """Order-free content of a graph: (node -> attrs, {u,v} -> attrs)."""
    return (
        {n: dict(d) for n, d in G.nodes(data=True)},
        {frozenset((u, v)): dict(d) for u, v, d in G.edges(data=True)},
    )


def snapshot(G):
    return ([(n, json.dumps(d, sort_keys=True, default=repr)) for n, d in G.nodes(data=True)],
            [(u, v, json.dumps(d, sort_keys=True, default=repr)) for u, v, d in G.edges(data=True)])


def show(case):
    ns = " ".join(f"{n}:" + "/".join(str(a[k]) for k in sorted(a)) for n, a in case["nodes"])
    es = " ".join(f"{u}-{v}:" + "/".join(str(a[k]) for k in sorted(a)) for u, v, a in case["edges"])
    return f"nodes[{ns}] edges[{es}]"


def canonicaliser(mod, backend):
    m = importlib.import_module(MODS[mod])
    return m, m.GraphCanonicaliser(backend=backend)


def _hex32(s):
    return isinstance(s, str) and len(s) == 32 and all(c in "0123456789abcdef" for c in s)


# ------------------------------------------------------------------ faithful + deterministic
def check_faithful(G, cg, where):
    n = G.number_of_nodes()
    if type(cg) is not type(G):
        raise Violation("faithful-class", f"{where}: canonical graph is a {type(cg).__name__}, input a {type(G).__name__}")
    if any(type(x) is not int for x in cg.nodes) or set(cg.nodes) != set(range(1, n + 1)):
        raise Violation("faithful-ids", f"{where}: canonical node ids {sorted(cg.nodes, key=repr)} are not 1..{n}")
    if cg.number_of_edges() != G.number_of_edges():
        raise Violation("faithful-bijection", f"{where}: {cg.number_of_edges()} edges, input has {G.number_of_edges()}")
    full = lambda a, b: a == b  # noqa: E731 - every attribute, not only the covered ones
    if Counter(json.dumps(d, sort_keys=True, default=repr) for _, d in G.nodes(data=True)) != Counter(
        json.dumps(d, sort_keys=True, default=repr) for _, d in cg.nodes(data=True)
    ) or not iso.is_isomorphic(G, cg, full, full):
        raise Violation("faithful-bijection", f"{where}: no attribute-preserving bijection from the input onto the canonical graph")


def body_faithful(case, rec):
    G = to_graph(case["g"])
    rec.label(f"n={G.number_of_nodes()}", "module " + MODS[case["mod"]])
    rec.nt(tied_keys(G))
    if tied_keys(G):
        rec.label("tied-keys")
    if any(k not in dict(COV_NODE) for _, a in case["g"]["nodes"] for k in a):
        rec.label("extra node attributes")
    rec.show(f"{case['mod']}: {show(case['g'])}")
    for backend in case.get("backends", BACKENDS):
        _faithful_one(case, G, backend, case["mod"])


def _faithful_one(case, G, backend, mod):
    m, canon = canonicaliser(mod, backend)
    before = snapshot(G)
    where = f"{backend} {show(case['g'])}"

    cg = canon.make_canonical_graph(G)
    check_faithful(G, cg, where + " make_canonical_graph")
    wrapper = canon.canonicalise_graph(G)
    if not isinstance(wrapper, m.CanonicalGraph):
        raise Violation("faithful-class", "canonicalise_graph does not return a CanonicalGraph")
    check_faithful(G, wrapper.canonical_graph, where + " CanonicalGraph.canonical_graph")
    if wrapper.original_graph is not G:
        raise Violation("faithful-class", "CanonicalGraph.original_graph is not the caller's graph")
    if snapshot(G) != before:
        raise Violation("faithful-input-modified", f"{where}: the input graph was changed")

    s1 = canon.canonical_signature(G)
    if not _hex32(s1) or not _hex32(wrapper.canonical_hash):
        raise Violation("deterministic", f"{where}: signature {s1!r} / {wrapper.canonical_hash!r} is not 32 hex characters")
    others = {
        "second call": canon.canonical_signature(G),
        "equal copy": canon.canonical_signature(G.copy()),
        "rebuilt graph": canon.canonical_signature(to_graph(case["g"])),
        "fresh canonicaliser": m.GraphCanonicaliser(backend=backend).canonical_signature(G),
        "alias graph_canonical_hash": canon.graph_canonical_hash(G),
    }
    for how, s in others.items():
        if s != s1:
            raise Violation("deterministic", f"{where}: signature {s1} but {s} on {how}")
    if m.CanonicalGraph(G, canon).canonical_hash != wrapper.canonical_hash:
        raise Violation("deterministic", f"{where}: CanonicalGraph hash differs between two constructions")
    if mod == "top":
        from synkit.Graph.syn_graph import SynGraph

        sg = SynGraph(G, canon)
        if sg.signature != s1:
            raise Violation("deterministic", f"{where}: SynGraph.signature {sg.signature} != canonical_signature {s1}")
        check_faithful(G, sg.canonical, where + " SynGraph.canonical")
    if snapshot(G) != before:
        raise Violation("faithful-input-modified", f"{where}: the input graph was changed")


# ------------------------------------------------------------------ faithful on directed graphs
def to_digraph(case, orient):
    """The case's edges as arcs: orient[i] = 0 (u->v), 1 (v->u), 2 (both, second arc with the order bumped),
    3 (both, identical attributes)."""
    g = nx.DiGraph()
    for n, a in case["nodes"]:
        g.add_node(n, **{k: _tup(v) for k, v in a.items()})
    for i, (u, v, a) in enumerate(case["edges"]):
        attrs = {k: _tup(x) for k, x in a.items()}
        o = orient[i % len(orient)] if orient else 0
        if o == 1:
            u, v = v, u
        g.add_edge(u, v, **attrs)
        if o >= 2:
            back = dict(attrs)
            if o == 2 and isinstance(back.get("order"), (int, float)):
                back["order"] = back["order"] + 1
            g.add_edge(v, u, **back)
    return g


def body_faithful_directed(case, rec):
    """GraphCanonicaliser returns 'a new graph of the same type': for a DiGraph the canonical graph must be the
    input relabelled onto 1..N with every node and arc (both arcs of a reciprocal pair) and attribute kept."""
    G = to_digraph(case["g"], case["orient"])
    recip = sum(1 for u, v in G.edges if G.has_edge(v, u)) // 2
    rec.nt(recip >= 1)
    rec.label(f"reciprocal-pairs={min(recip, 3)}", "module " + MODS[case["mod"]])
    rec.show(f"{case['mod']} directed orient={case['orient']}: {show(case['g'])}")
    for backend in case.get("backends", BACKENDS):
        m, canon = canonicaliser(case["mod"], backend)
        before = snapshot(G)
        cg = canon.make_canonical_graph(G)
        check_faithful(G, cg, f"{backend} directed {show(case['g'])} orient={case['orient']}")
        s1 = canon.canonical_signature(G)
        if canon.canonical_signature(G.copy()) != s1 or not _hex32(s1):
            raise Violation("deterministic", f"{backend} directed: signature differs on an equal copy")
        if snapshot(G) != before:
            raise Violation("faithful-input-modified", f"{backend} directed: the input graph was changed")


@st.composite
def strat_faithful_directed(draw, tier):
    g = draw(base_graphs(max_nodes=7, extras=False, symmetric=True))
    return {"g": g, "mod": draw(st.sampled_from(sorted(MODS))), "orient": draw(st.lists(st.integers(0, 3), min_size=1, max_size=8))}


_EXTRA_NODE = {"atom_map": st.integers(0, 30), "tag": st.sampled_from(["a", "b"]), "neighbors": st.lists(st.sampled_from(["C", "N"]), max_size=2)}
_SCHEMAS = [
    dict(elements=("C", "N"), charges=None, hcounts=None, aromatic=None),
    dict(elements=("C",), charges=(0,), hcounts=(0, 1), aromatic=(False,)),
    dict(elements=("C", "N"), charges=(0, -1), hcounts=(0, 1), aromatic=(False, True)),
    dict(elements=("C", "N", "O"), charges=(0,), hcounts=None, aromatic=None),
]
_EDGE_SCHEMAS = [
    st.fixed_dictionaries(dict(order=st.sampled_from([1, 2]))),
    st.fixed_dictionaries(dict(order=st.sampled_from([1.0, 1.5, 2.0]))),
    st.sampled_from([dict(order=[1.0, 2.0], standard_order=-1.0), dict(order=[2.0, 1.0], standard_order=1.0),
                     dict(order=[1.0, 1.0], standard_order=0.0), dict(order=[0, 1.0], standard_order=-1.0)]),
]
_EDGE_EXTRA = st.fixed_dictionaries(dict(order=st.sampled_from([1, 2]), w=st.sampled_from([0.5, 2.5]), ring=st.booleans()))


@st.composite
def base_graphs(draw, max_nodes=8, extras=False, symmetric=True):
    schema = draw(st.sampled_from(_SCHEMAS))
    extra = None
    if extras and draw(st.booleans()):
        ks = draw(st.lists(st.sampled_from(sorted(_EXTRA_NODE)), min_size=1, max_size=3, unique=True))
        extra = {k: _EXTRA_NODE[k] for k in ks}
    na = gg.node_attr_strategy(extra=extra, **schema)
    ea = draw(st.sampled_from(_EDGE_SCHEMAS + ([_EDGE_EXTRA] if extras else [])))
    kind = draw(st.sampled_from(["random", "random", "symmetric"] if symmetric else ["random"]))
    if kind == "symmetric":
        g = draw(gg.symmetric_graphs(node_attrs=na, edge_attrs=ea, uniform=draw(st.booleans())))
        if len(g["nodes"]) > max_nodes:
            g = draw(gg.graphs(min_nodes=1, max_nodes=max_nodes, node_attrs=na, edge_attrs=ea))
        g = {"nodes": g["nodes"], "edges": g["edges"]}
    else:
        g = draw(gg.graphs(min_nodes=1, max_nodes=max_nodes, node_attrs=na, edge_attrs=ea, extra_edge_p=draw(st.sampled_from([0.1, 0.4]))))
    return g


@st.composite
def strat_faithful(draw, tier):
    g = draw(base_graphs(max_nodes=8, extras=True))
    if draw(st.booleans()):
        g, _ = draw(gg.relabelled(g))
    return {"g": g, "mod": draw(st.sampled_from(["top", "top", "pkg"]))}


# ------------------------------------------------------------------ enumerated domains, grouped by signature
_ITS_EDGES = [dict(order=[1.0, 2.0], standard_order=-1.0), dict(order=[2.0, 1.0], standard_order=1.0), dict(order=[1.0, 1.0], standard_order=0.0)]
DOMAINS = {
    # name: (tiers, converse claimed for nauty, [(n, node label sets, edge labels)])
    "n<=3 element x order": (("quick", "thorough"), True, [(n, {"element": ["C", "N"]}, [{"order": 1}, {"order": 2}]) for n in (1, 2, 3)]),
    "n3 charge x hcount": (("quick", "thorough"), True, [(3, {"element": ["C"], "charge": [0, -1], "hcount": [0, 1]}, [{"order": 1}])]),
    "n3 aromatic x ITS order": (("quick", "thorough"), True, [(3, {"element": ["C"], "aromatic": [False, True]}, _ITS_EDGES)]),
    "n3 free standard_order": (("quick", "thorough"), False, [(3, {"element": ["C"]}, [{"order": 1, "standard_order": 0}, {"order": 1, "standard_order": 1}, {"order": 2, "standard_order": 0}])]),
    "n4 element": (("quick", "thorough"), True, [(4, {"element": ["C", "N"]}, [{"order": 1}])]),
    "n4 element x order": (("thorough",), True, [(4, {"element": ["C", "N"]}, [{"order": 1}, {"order": 2}])]),
    "n4 hcount x aromatic": (("thorough",), True, [(4, {"element": ["C"], "hcount": [0, 1], "aromatic": [False, True]}, [{"order": 1}])]),
    "n5 element": (("thorough",), True, [(5, {"element": ["C", "N"]}, [{"order": 1}])]),
}


def _variants(case):
    """Insertion-order variants of one labelled graph: (node order, edges reversed+flipped?)."""
    n = len(case["nodes"])
    if n <= 3:
        orders = list(itertools.permutations(range(n)))
    else:
        orders = [tuple(range(n)), tuple(reversed(range(n))), tuple(range(1, n)) + (0,)]
    ident = {k: k for k, _ in case["nodes"]}
    m = len(case["edges"])
    for i, o in enumerate(orders):
        rev = i % 2 == 1
        yield gg.apply_perm(case, ident, node_order=list(o), edge_order=list(reversed(range(m))) if rev else None, flip=[rev] * m)


def domain_graphs(name):
    for n, nls, els in DOMAINS[name][2]:
        yield from gg.enum_graphs(n, nls, els)


_TABLES = {}


def _key(g):
    return json.dumps([g["nodes"], g["edges"]], sort_keys=True)


def table(backend, name):
    """Per process, once: for every labelled graph of the domain and every insertion variant its signature and
    canonical graph, plus the reference class; grouped both ways."""
    tk = (backend, name)
    if tk in _TABLES:
        return _TABLES[tk]
    _, canon = canonicaliser("top", backend)
    index, cls, sigs, by_sig, by_cls = {}, [], [], {}, {}
    canon_content = []
    for i, g in enumerate(domain_graphs(name)):
        index[_key(g)] = i
        c = repr(ref_canon(to_graph(g)))
        cls.append(c)
        ss, cc = [], []
        for var in _variants(g):
            G = to_graph(var)
            s = canon.canonical_signature(G)
            ss.append(s)
            by_sig.setdefault(s, {}).setdefault(c, (i, var))
            if backend == "nauty":
                cg = canon.make_canonical_graph(G)
                cc.append(content(cg))
        sigs.append(ss)
        canon_content.append(cc)
        by_cls.setdefault(c, []).append(i)
    members = {}  # signature -> number of distinct labelled graphs carrying it
    for i, ss in enumerate(sigs):
        for s in set(ss):
            members[s] = members.get(s, 0) + 1
    _TABLES[tk] = dict(index=index, cls=cls, sigs=sigs, by_sig=by_sig, by_cls=by_cls, members=members, canon=canon_content)
    return _TABLES[tk]


def make_body_enum(backend):
    def body(case, rec):
        name, g = case["domain"], case["g"]
        T = table(backend, name)
        i = T["index"][_key(g)]
        c = T["cls"][i]
        G = to_graph(g)
        tied = tied_keys(G)
        shared = any(T["members"][s] >= 2 for s in T["sigs"][i])
        rec.nt(tied and (shared or len(T["by_cls"][c]) >= 2))
        rec.label(name, "tied-keys" if tied else "distinct-keys")
        if shared:
            rec.label("signature shared with another labelled graph")
        rec.show(f"{backend} [{name}] {show(g)}")
        # sound: everything that carries one of my signatures lies in my isomorphism class
        for s in T["sigs"][i]:
            for c2, (j, var) in T["by_sig"][s].items():
                if c2 != c:
                    raise Violation("sound-signature", f"{backend}: signature {s} is shared by the non-isomorphic graphs {show(g)} and {show(var)}")
        # complete (nauty): my whole class, in every insertion order, has one signature and one canonical graph
        if backend == "nauty" and DOMAINS[name][1]:
            s0, c0 = T["sigs"][i][0], T["canon"][i][0]
            gvars = list(_variants(g))
            for j in T["by_cls"][c]:
                for k, s in enumerate(T["sigs"][j]):
                    if T["canon"][j][k] != c0:
                        other = list(_variants(list(domain_graphs_cached(name))[j]))[k]
                        raise Violation("complete-canonical-graph", f"nauty: isomorphic graphs {show(gvars[0])} and {show(other)} get different canonical graphs {_fmt(c0)} vs {_fmt(T['canon'][j][k])}")
            for j in T["by_cls"][c]:
                for k, s in enumerate(T["sigs"][j]):
                    if s != s0:
                        other = list(_variants(list(domain_graphs_cached(name))[j]))[k]
                        raise Violation("complete-signature", f"nauty: isomorphic graphs {show(gvars[0])} and {show(other)} get signatures {s0} and {s}")

    return body


_DG = {}


def domain_graphs_cached(name):
    if name not in _DG:
        _DG[name] = list(domain_graphs(name))
    return _DG[name]


def _fmt(c):
    nodes, edges = c
    return "{" + ", ".join(f"{n}:{'/'.join(str(v) for v in d.values())}" for n, d in sorted(nodes.items())) + " | " + ", ".join(
        "-".join(map(str, sorted(e))) + ":" + "/".join(str(v) for v in edges[e].values()) for e in sorted(edges, key=sorted)) + "}"


def make_enum(tier_all=False):
    def enum(tier):
        for name, (tiers, _, _) in DOMAINS.items():
            if tier in tiers:
                for g in domain_graphs(name):
                    yield {"domain": name, "g": g}

    return enum


# ------------------------------------------------------------------ pairs
@st.composite
def near_edit(draw, case, e0=None):
    """One edit that keeps the multisets of node and edge labels when it can: swap the attributes of two nodes,
    move an edge, swap the attributes of two edges; otherwise a plain one-attribute / one-edge edit."""
    nodes = [[n, dict(a)] for n, a in case["nodes"]]
    edges = [[u, v, dict(a)] for u, v, a in case["edges"]]
    ids = [n for n, _ in nodes]
    kinds = ["plain"]
    if len(nodes) >= 2:
        kinds.append("swap-nodes")
    missing = [(a, b) for a, b in itertools.combinations(ids, 2) if not any({u, v} == {a, b} for u, v, _ in edges)]
    if edges and missing:
        kinds += ["move-edge", "move-edge"]
    if len(edges) >= 2:
        kinds.append("swap-edges")
    kind = draw(st.sampled_from(kinds))
    if kind == "swap-nodes":
        i, j = draw(st.lists(st.integers(0, len(nodes) - 1), min_size=2, max_size=2, unique=True))
        nodes[i][1], nodes[j][1] = nodes[j][1], nodes[i][1]
    elif kind == "move-edge":
        i = draw(st.integers(0, len(edges) - 1))
        a, b = missing[draw(st.integers(0, len(missing) - 1))]
        edges[i] = [a, b, edges[i][2]]
    elif kind == "swap-edges":
        i, j = draw(st.lists(st.integers(0, len(edges) - 1), min_size=2, max_size=2, unique=True))
        edges[i][2], edges[j][2] = edges[j][2], edges[i][2]
    else:
        node_alts = {}
        a0 = nodes[0][1]
        for k, alts in (("element", ["C", "N", "O"]), ("charge", [0, -1, 1]), ("hcount", [0, 1, 2]), ("aromatic", [False, True])):
            if k in a0:
                node_alts[k] = alts
        e0 = e0 or (edges[0][2] if edges else {"order": 1})  # edge attribute schema (and types) of the base graph
        if isinstance(e0["order"], list):
            pool = [dict(x) for x in _ITS_EDGES] + [dict(order=[0, 1.0], standard_order=-1.0)]
            g2, _ = draw(gg.one_edit({"nodes": nodes, "edges": edges}, node_alts=node_alts, edge_alts={"order": [[9.0, 9.0]]}))
            for e in g2["edges"]:  # keep standard_order a function of order
                if e[2]["order"] == [9.0, 9.0]:
                    e[2].clear()
                    e[2].update(draw(st.sampled_from(pool)))
            return g2, "plain"
        orders = [1.0, 1.5, 2.0] if isinstance(e0["order"], float) else [1, 2, 3]
        g2, _ = draw(gg.one_edit({"nodes": nodes, "edges": edges}, node_alts=node_alts, edge_alts={"order": orders}))
        for e in g2["edges"]:
            for k, v in e0.items():  # a freshly added edge carries the same attribute schema
                e[2].setdefault(k, v)
        return g2, "plain"
    return {"nodes": nodes, "edges": edges}, kind


@st.composite
def strat_pairs(draw, backends, max_nodes=8):
    a = draw(base_graphs(max_nodes=max_nodes))
    how = draw(st.sampled_from(["copy", "copy", "edit", "edit", "edit2"]))
    b, steps = a, []
    e0 = a["edges"][0][2] if a["edges"] else None
    for _ in range({"copy": 0, "edit": 1, "edit2": 2}[how]):
        b, k = draw(near_edit(b, e0))
        steps.append(k)
    b, _ = draw(gg.relabelled(b))
    return {"a": a, "b": b, "how": "+".join(steps) or "copy", "backends": list(backends), "mod": draw(st.sampled_from(["top", "top", "pkg"]))}


def _nontrivial_aut(G):
    return len(list(iso.isomorphisms(G, G, node_ok, edge_ok, limit=2))) >= 2


def body_pair(case, rec):
    A, B = to_graph(case["a"]), to_graph(case["b"])
    same = ref_iso(A, B)
    near = (not same) and key_multisets(A) == key_multisets(B)
    tied = tied_keys(A)
    identity = case["a"] == case["b"]
    rec.nt(tied and ((same and not identity) or near))
    rec.label("isomorphic" if same else ("near-miss" if near else "different-keys"), f"edit={case.get('how', '?')}")
    if tied and same and _nontrivial_aut(A):
        rec.label("isomorphic, non-trivial automorphism group")
    pair = f"{show(case['a'])}  vs  {show(case['b'])}"
    rec.show(f"{'/'.join(case['backends'])} ({'isomorphic' if same else 'not isomorphic'}): {pair}")
    for backend in case["backends"]:
        _pair_one(A, B, backend, case["mod"], same, pair, rec)


def _pair_one(A, B, backend, mod, same, pair, rec):
    m, canon = canonicaliser(mod, backend)
    exact = backend == "nauty"
    sa, sb = canon.canonical_signature(A), canon.canonical_signature(B)
    if sa == sb and not same:
        raise Violation("sound-signature", f"{backend}: equal signatures {sa} for non-isomorphic {pair}")
    wa, wb = canon.canonicalise_graph(A), canon.canonicalise_graph(B)
    if (wa == wb) != (wa.canonical_hash == wb.canonical_hash) or (wa == wb and hash(wa) != hash(wb)):
        raise Violation("wrapper-eq-hash", f"{backend}: CanonicalGraph ==/hash disagree with canonical_hash on {pair}")
    if wa == wb and not same:
        raise Violation("sound-wrapper", f"{backend}: CanonicalGraph objects equal for non-isomorphic {pair}")
    if wa != wa or wa == A or wa == sa:
        raise Violation("wrapper-eq-hash", "CanonicalGraph equality is not reflexive / not type-safe")
    if mod == "top":
        from synkit.Graph.syn_graph import SynGraph

        ga, gb = SynGraph(A, canon), SynGraph(B, canon)
        if (ga == gb) != (ga.signature == gb.signature) or (ga == gb and hash(ga) != hash(gb)):
            raise Violation("wrapper-eq-hash", f"{backend}: SynGraph ==/hash disagree with signature on {pair}")
        if ga == gb and not same:
            raise Violation("sound-wrapper", f"{backend}: SynGraph objects equal for non-isomorphic {pair}")
    if not exact:
        if same:
            rec.label(f"{backend}: copy recognised" if sa == sb else f"{backend}: copy not recognised (allowed)")
        return

    # ---- converse, exact back-end only
    if same:
        ca, cb = canon.make_canonical_graph(A), canon.make_canonical_graph(B)
        if content(ca) != content(cb):
            raise Violation("complete-canonical-graph", f"nauty: canonical graphs differ for isomorphic {pair}: {_fmt(content(ca))} vs {_fmt(content(cb))}")
        if content(wa.canonical_graph) != content(wb.canonical_graph):
            raise Violation("complete-canonical-graph", f"nauty: CanonicalGraph.canonical_graph differs for isomorphic {pair}")
        if sa != sb:
            raise Violation("complete-signature", f"nauty: signatures {sa} / {sb} for isomorphic {pair}")
        if wa != wb or hash(wa) != hash(wb) or len({wa, wb}) != 1:
            raise Violation("complete-wrapper", f"nauty: CanonicalGraph objects differ (hash {wa.canonical_hash} / {wb.canonical_hash}) for isomorphic {pair}")
        if mod == "top" and (ga != gb or hash(ga) != hash(gb) or len({ga, gb}) != 1):
            raise Violation("complete-wrapper", f"nauty: SynGraph objects differ for isomorphic {pair}")
    # the search object's own digest (covers its node_attrs and 'order')
    na, nb = canon.nauty.graph_signature(A), canon.nauty.graph_signature(B)
    if na == nb and not iso.is_isomorphic(A, B, node_ok, lambda x, y: x.get("order") == y.get("order")):
        raise Violation("sound-signature", f"nauty.graph_signature equal for non-isomorphic {pair}")
    if same and na != nb:
        raise Violation("complete-signature", f"nauty.graph_signature {na[:12]} / {nb[:12]} for isomorphic {pair}")


# ------------------------------------------------------------------ rule wrappers
_SMALL_RULES = [
    "[CH3:1][Cl:2].[OH2:3]>>[CH3:1][OH:3].[ClH:2]",
    "[CH3:1][Br:2].[OH2:3]>>[CH3:1][OH:3].[BrH:2]",
    "[CH2:1]=[CH2:2].[H:3][H:4]>>[CH2:1]([H:3])[CH2:2][H:4]",
    "[CH2:1]=[CH:2][CH:3]=[CH2:4].[CH2:5]=[CH2:6]>>[CH2:1]1[CH:2]=[CH:3][CH2:4][CH2:5][CH2:6]1",
    "[CH3:1][C:2](=[O:3])[OH:4].[CH3:5][OH:6]>>[CH3:1][C:2](=[O:3])[O:6][CH3:5].[OH2:4]",
    "[CH3:1][C:2](=[O:3])[OH:4].[CH3:5][NH2:6]>>[CH3:1][C:2](=[O:3])[NH:6][CH3:5].[OH2:4]",
    "[CH3:1][CH:2]=[O:3].[CH3:4][CH:5]=[O:6]>>[CH3:1][CH:2]([OH:3])[CH2:4][CH:5]=[O:6]",
    "[CH3:1][CH2:2][OH:3]>>[CH2:1]=[CH2:2].[OH2:3]",
    "[CH3:1][OH:2].[CH3:3][OH:4]>>[CH3:1][O:2][CH3:3].[OH2:4]",
    # same reactants, different products / different atom correspondence
    "[CH2:1]=[CH:2][CH3:3].[BrH:4]>>[CH3:1][CH:2]([Br:4])[CH3:3]",
    "[CH2:1]=[CH:2][CH3:3].[BrH:4]>>[CH2:1]([Br:4])[CH2:2][CH3:3]",
    "[CH3:1][CH2:2][OH:3].[CH3:4][C:5](=[O:6])[OH:7]>>[CH3:1][CH2:2][O:3][C:5]([CH3:4])=[O:6].[OH2:7]",
    "[CH3:1][CH2:2][OH:3].[CH3:4][C:5](=[O:6])[OH:7]>>[CH3:1][CH2:2][O:7][C:5]([CH3:4])=[O:6].[OH2:3]",
    # different reactants, same product
    "[CH3:1][CH:2]=[CH2:3].[OH2:4]>>[CH3:1][CH:2]([OH:4])[CH3:3]",
    "[CH3:1][C:2](=[O:4])[CH3:3].[H:5][H:6]>>[CH3:1][C:2]([H:5])([O:4][H:6])[CH3:3]",
]


_RELATED = [(9, 10), (10, 9), (11, 12), (13, 14), (0, 1), (4, 5)]


def _rule_pool():
    from vlib import chem_gen

    pool = list(_SMALL_RULES)
    for rsmi, _src, _style in chem_gen.corpus():
        if rsmi.split(">>")[0].count(":") <= 40:  # fully mapped: one ':' per atom; bounds the brute-force reference
            pool.append(rsmi)
    return pool


_POOL = []


def pool():
    if not _POOL:
        _POOL.extend(_rule_pool())
    return _POOL


def _renumber_graph(G, keys):
    """Copy of G with node ids permuted among themselves (+ offset) and nodes/edges re-inserted in another order;
    attributes (atom_map included) untouched."""
    ids = sorted(G.nodes)
    order = sorted(range(len(ids)), key=lambda i: (keys[i % len(keys)], i))
    off = keys[0] % 7
    m = {ids[i]: ids[order[i]] + off for i in range(len(ids))}
    H = nx.Graph()
    for n in sorted(G.nodes, key=lambda n: (keys[(n + 3) % len(keys)], n)):
        H.add_node(m[n], **G.nodes[n])
    es = sorted(G.edges(data=True), key=lambda e: (keys[(e[0] * 7 + e[1]) % len(keys)], e[0], e[1]))
    for k, (u, v, d) in enumerate(es):
        if keys[k % len(keys)] % 2:
            u, v = v, u
        H.add_edge(m[u], m[v], **d)
    return H


def body_rules(case, rec):
    from synkit.Graph.canon_graph import GraphCanonicaliser
    from synkit.IO.chem_converter import rsmi_to_its
    from synkit.Rule.syn_rule import SynRule

    P = pool()
    ra, rb = P[case["a"] % len(P)], P[case["b"] % len(P)]
    ia, ib = rsmi_to_its(ra), rsmi_to_its(rb)
    if ia is None or ib is None or max(ia.number_of_nodes(), ib.number_of_nodes()) > 45:
        raise Inconclusive()
    if case.get("core"):
        from synkit.Graph.ITS.its_decompose import get_rc

        ia, ib = get_rc(ia), get_rc(ib)
    ib = _renumber_graph(ib, case["keys"])
    canon = GraphCanonicaliser(backend=case["backend"])
    exact = case["backend"] == "nauty"
    A = SynRule(ia, canonicaliser=canon, implicit_h=case["implicit_h"])
    B = SynRule(ib, canonicaliser=canon, implicit_h=case["implicit_h"])
    same_l = ref_iso(A.left.raw, B.left.raw)
    same_r = ref_iso(A.right.raw, B.right.raw)
    same_rc = ref_iso(A.rc.raw, B.rc.raw)
    same = same_l and same_r
    self_pair = case["a"] % len(P) == case["b"] % len(P)
    rec.nt(tied_keys(A.left.raw) and (same or self_pair))
    rec.label(case["backend"], "same template renumbered" if self_pair else "two templates", "fragments isomorphic" if same else "fragments differ",
              "centre only" if case.get("core") else "full ITS")
    if same_l != same_r:
        rec.label("exactly one side isomorphic")
    if same and not same_rc:
        rec.label("sides isomorphic, centre not")
    rec.show(f"{case['backend']}: {ra}  vs renumbered  {rb}")
    if self_pair and not (same and same_rc):
        raise Inconclusive()  # decomposition depends on the numbering: not this property's subject
    if (A == B) != (A.canonical_smiles == B.canonical_smiles) or (A == B and hash(A) != hash(B)):
        raise Violation("wrapper-eq-hash", f"SynRule ==/hash disagree with canonical_smiles: {ra} / {rb}")
    if A.canonical_smiles != (A.left.signature, A.right.signature):
        raise Violation("wrapper-eq-hash", "SynRule.canonical_smiles is not the pair of fragment signatures")
    if A == B and not same:
        raise Violation("sound-wrapper", f"{case['backend']}: SynRule objects equal but fragments are not isomorphic: {ra} / {rb}")
    if A.rc == B.rc and not same_rc:
        raise Violation("sound-wrapper", f"{case['backend']}: rule centre wrappers equal but not isomorphic: {ra} / {rb}")
    if exact:
        if same and (A != B or hash(A) != hash(B) or len({A, B}) != 1):
            raise Violation("complete-wrapper", f"nauty: SynRule objects differ although left and right fragments are isomorphic: {ra} / renumbered {rb} keys={case['keys'][:4]}")
        if same_rc and (A.rc != B.rc or hash(A.rc) != hash(B.rc)):
            raise Violation("complete-wrapper", f"nauty: rule centre SynGraph objects differ although isomorphic: {ra} / renumbered {rb}")
        for fa, fb, ok in ((A.left, B.left, same_l), (A.right, B.right, same_r), (A.rc, B.rc, same_rc)):
            if ok and content_cov(fa.canonical) != content_cov(fb.canonical):
                raise Violation("complete-canonical-graph", f"nauty: canonical fragment graphs differ on the covered attributes: {ra} / renumbered {rb}")


def content_cov(G):
    return ({n: nlabel(d) for n, d in G.nodes(data=True)}, {frozenset((u, v)): elabel(d) for u, v, d in G.edges(data=True)})


@st.composite
def strat_rules(draw, tier):
    npool = 400
    a = draw(st.integers(0, npool - 1))
    b = a if draw(st.integers(0, 2)) else draw(st.integers(0, npool - 1))
    mode = draw(st.integers(0, 5))
    if mode == 0:
        a = b = draw(st.integers(0, len(_SMALL_RULES) - 1))
    elif mode == 1:  # two hand-written templates: several share one side or differ only in the atom correspondence
        a, b = draw(st.one_of(st.sampled_from(_RELATED), st.tuples(st.integers(0, len(_SMALL_RULES) - 1), st.integers(0, len(_SMALL_RULES) - 1))))
    return {
        "a": a, "b": b, "keys": draw(st.lists(st.integers(0, 999), min_size=6, max_size=16)),
        "backend": draw(st.sampled_from(["nauty", "nauty", "nauty", "generic", "wl"])),
        "implicit_h": draw(st.booleans()), "core": draw(st.booleans()),
    }


# ------------------------------------------------------------------ sub-checks
SUBS = [
    Sub("faithful", body_faithful, strategy=strat_faithful, examples={"quick": 2000, "thorough": 24000}, shards={"quick": 8, "thorough": 16},
        doc="canonical graph is an attribute-preserving relabelling onto 1..N (all back-ends, both modules, extra attributes); signature deterministic"),
    Sub("faithful_directed", body_faithful_directed, strategy=lambda tier: strat_faithful_directed(tier), examples={"quick": 1600, "thorough": 16000}, shards={"quick": 8, "thorough": 16},
        doc="DiGraph inputs incl. reciprocal arcs: same type, ids 1..N, attribute-preserving bijection on nodes and arcs, all four back-ends"),
] + [
    Sub(f"classes_{b}", make_body_enum(b), enum=make_enum(), exhaustive=True, shards={"quick": 2, "thorough": 4},
        doc=f"{b}: enumerated domains grouped by signature - every group inside one isomorphism class" + ("; every class in one group with one canonical graph" if b == "nauty" else ""))
    for b in BACKENDS
] + [
    Sub("pairs_exact", body_pair, strategy=lambda tier: strat_pairs(["nauty"]), examples={"quick": 2000, "thorough": 24000}, shards={"quick": 8, "thorough": 16},
        doc="nauty: graph vs renumbered copy / edited neighbour - signatures, canonical graphs, CanonicalGraph and SynGraph equal iff isomorphic"),
    Sub("pairs_sound", body_pair, strategy=lambda tier: strat_pairs(["generic", "wl", "morgan"]), examples={"quick": 2000, "thorough": 24000}, shards={"quick": 6, "thorough": 16},
        doc="generic/wl/morgan: equal signatures / equal wrappers => isomorphic"),
    Sub("rules", body_rules, strategy=strat_rules, examples={"quick": 480, "thorough": 6000}, shards={"quick": 8, "thorough": 16},
        doc="SynRule (+ rc SynGraph) on corpus templates vs renumbered copies and other templates: equal iff fragments isomorphic (nauty), equal => isomorphic (others)"),
]
