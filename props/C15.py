"""C15 - reaction-network store stays consistent under every history of edits.

Oracle: a reference model (plain dicts) advanced in lock-step with
CRNHyperGraph; every public attribute is compared with the model after every
operation, on every live network and on every copy taken so far.
"""
from __future__ import annotations

import copy
import itertools

from hypothesis import strategies as st

from vlib.runner import Sub, Violation

PROPERTY = "C15"
RULE = (
    "histories = lists of JSON operations (add with generated/explicit id incl. ids shaped like generated ones, "
    "add from string, remove reaction, remove species with/without pruning, merge with/without id regeneration, "
    "copy, fork, mol-label edits, documented rejections) interpreted on two live networks and a plain-dict "
    "reference model; exhaustive to a depth bound over a 21-operation alphabet, Hypothesis lists up to 60 ops. "
    "Non-trivial = history with a removal after an add on a shared species, or an explicit id that a later "
    "generated id would collide with, or an edit after merge/copy; distinct by the operation list."
)
ASSUMPTIONS = [
    "a species kept by remove_species(prune_orphans=False) stays until it takes part in a reaction again",
]


# ------------------------------------------------------------------ model
class Model:
    def __init__(self):
        self.rx = {}  # id -> (reactants dict, products dict, rule)
        self.kept = set()
        self.mol = {}

    def species(self):
        s = set(self.kept)
        for r, p, _ in self.rx.values():
            s |= set(r) | set(p)
        return s

    def occurring(self):
        s = set()
        for r, p, _ in self.rx.values():
            s |= set(r) | set(p)
        return s

    def add(self, eid, r, p, rule):
        self.rx[eid] = (dict(r), dict(p), rule)
        self.kept -= set(r) | set(p)

    def prune_mol(self):
        sp = self.species()
        for k in list(self.mol):
            if k not in sp:
                del self.mol[k]

    def rm_rxn(self, eid):
        del self.rx[eid]
        self.prune_mol()

    def rm_species(self, s, prune):
        for eid in list(self.rx):
            r, p, rule = self.rx[eid]
            r.pop(s, None)
            p.pop(s, None)
            if not r and not p:
                del self.rx[eid]
        if prune:
            self.kept.discard(s)
        else:
            self.kept.add(s)
        self.prune_mol()


def _norm(side):
    return {k: int(v) for k, v in side.items() if int(v) > 0}


def check_against(hg, m: Model, where: str):
    import numpy as np

    # edges id-for-id
    if set(hg.edges) != set(m.rx):
        raise Violation("edges", f"{where}: ids {sorted(hg.edges)} != model {sorted(m.rx)}")
    for eid, (r, p, rule) in m.rx.items():
        e = hg.edges[eid]
        if e.id != eid:
            raise Violation("edge-id", f"{where}: edge stored under {eid} has id {e.id}")
        if dict(e.reactants.items()) != r or dict(e.products.items()) != p or e.rule != rule:
            raise Violation(
                "stoichiometry",
                f"{where}: {eid} is {dict(e.reactants.items())}>>{dict(e.products.items())} ({e.rule}), model {r}>>{p} ({rule})",
            )
    want = m.species()
    if set(hg.species) != want:
        raise Violation("species", f"{where}: species {sorted(hg.species)} != model {sorted(want)}")
    for s in want:
        ins = {eid for eid, (r, p, _) in m.rx.items() if s in p}
        outs = {eid for eid, (r, p, _) in m.rx.items() if s in r}
        if set(hg.species_to_in_edges.get(s, ())) != ins:
            raise Violation("in-index", f"{where}: in[{s}]={sorted(hg.species_to_in_edges.get(s, ()))} model {sorted(ins)}")
        if set(hg.species_to_out_edges.get(s, ())) != outs:
            raise Violation("out-index", f"{where}: out[{s}]={sorted(hg.species_to_out_edges.get(s, ()))} model {sorted(outs)}")
    for idx, name in ((hg.species_to_in_edges, "in-index"), (hg.species_to_out_edges, "out-index")):
        for s, ids in idx.items():
            if s not in want and ids:
                raise Violation(name, f"{where}: stale entry {s}->{sorted(ids)}")
    if not set(hg.species_to_mol) <= want:
        raise Violation("mol-labels", f"{where}: labels for absent species {sorted(set(hg.species_to_mol) - want)}")
    if dict(hg.species_to_mol) != m.mol:
        raise Violation("mol-labels", f"{where}: {dict(hg.species_to_mol)} != model {m.mol}")
    # incidence
    so, eo, mp = hg.incidence_matrix(sparse=True)
    so2, eo2, mat = hg.incidence_matrix(sparse=False)
    if list(so) != sorted(want) or list(so2) != sorted(want) or list(eo) != sorted(m.rx) or list(eo2) != sorted(m.rx):
        raise Violation("incidence", f"{where}: orders {so} {eo}")
    ref = {}
    for eid, (r, p, _) in m.rx.items():
        for s in set(r) | set(p):
            ref[(s, eid)] = p.get(s, 0) - r.get(s, 0)
    if {k: v for k, v in mp.items() if v != 0} != {k: v for k, v in ref.items() if v != 0} or not set(mp) <= set(ref):
        raise Violation("incidence", f"{where}: sparse {mp} != model {ref}")
    dense = np.zeros((len(so2), len(eo2)), dtype=int)
    for (s, eid), v in ref.items():
        dense[so2.index(s), eo2.index(eid)] = v
    if mat.shape != dense.shape or not (mat == dense).all():
        raise Violation("incidence", f"{where}: dense matrix differs from products-reactants")


# ------------------------------------------------------------------ interpreter
def _mk_side(d, form):
    from synkit.CRN.Hypergraph.rxn import RXNSide

    if form == 0:
        return dict(d)
    if form == 1:
        out = []
        for k, v in d.items():
            out.extend([k] * v)
        return out
    if form == 2:
        return [(k, v) for k, v in d.items()]
    return RXNSide.from_any(dict(d))


def _side_str(d):
    if not d:
        return ""
    return " + ".join((k if v == 1 else f"{v}{k}") for k, v in d.items())


def run_history(ops, rec):
    from synkit.CRN.Hypergraph.hypergraph import CRNHyperGraph

    nets = [CRNHyperGraph(), CRNHyperGraph()]
    models = [Model(), Model()]
    frozen = []  # (network, model snapshot, tag)
    flags = dict(rm_after_add=False, collide=False, edit_after_merge=False)
    merged_or_copied = False
    explicit_genlike = set()

    def verify(step):
        for i in (0, 1):
            check_against(nets[i], models[i], f"step {step} net{i}")
        for hg, snap, tag in frozen:
            check_against(hg, snap, f"step {step} {tag}")

    for step, op in enumerate(ops):
        kind = op[0]
        if kind == "add":
            _, n, r, p, rule, eid, form = op
            r, p = _norm(r), _norm(p)
            hg, m = nets[n], models[n]
            if merged_or_copied:
                flags["edit_after_merge"] = True
            if not r and not p:
                try:
                    hg.add_rxn(_mk_side(r, form), _mk_side(p, form), rule=rule, edge_id=eid)
                except ValueError:
                    pass
                except KeyError:
                    if eid is None or eid not in m.rx:
                        raise Violation("rejection", f"step {step}: KeyError for fresh id {eid}")
                else:
                    raise Violation("rejection", f"step {step}: empty reaction accepted")
            elif eid is not None and eid in m.rx:
                try:
                    hg.add_rxn(_mk_side(r, form), _mk_side(p, form), rule=rule, edge_id=eid)
                except KeyError:
                    pass
                else:
                    raise Violation("rejection", f"step {step}: duplicate explicit id {eid} accepted")
            else:
                e = hg.add_rxn(_mk_side(r, form), _mk_side(p, form), rule=rule, edge_id=eid)
                new = e.id
                if eid is not None and new != eid:
                    raise Violation("edge-id", f"step {step}: asked for id {eid}, got {new}")
                if new in m.rx:
                    flags["collide"] = True
                    raise Violation(
                        "id-collision", f"step {step}: generated id {new} already names {m.rx[new]}; the earlier reaction is lost"
                    )
                if eid is not None and "_" in eid and eid.rsplit("_", 1)[1].isdigit():
                    explicit_genlike.add(eid)
                if eid is None and explicit_genlike:
                    flags["collide"] = True
                m.add(new, r, p, rule or "r")
        elif kind == "add_str":
            _, n, r, p, rule, suffix = op
            r, p = _norm(r), _norm(p)
            hg, m = nets[n], models[n]
            if not r and not p:
                continue
            text = f"{_side_str(r)} >> {_side_str(p)}"
            if suffix and rule:
                e = hg.add_rxn_from_str(text + f" | rule={rule}")
            else:
                e = hg.add_rxn_from_str(text, rule=rule)
            if e.id in m.rx:
                raise Violation("id-collision", f"step {step}: generated id {e.id} already in use")
            m.add(e.id, r, p, rule or "r")
        elif kind == "rm_rxn":
            _, n, idx = op
            hg, m = nets[n], models[n]
            ids = sorted(m.rx)
            if not ids:
                try:
                    hg.remove_rxn("no_such_id")
                except KeyError:
                    pass
                else:
                    raise Violation("rejection", f"step {step}: removing an unknown id did not raise")
            else:
                eid = ids[idx % len(ids)]
                r, p, _ = m.rx[eid]
                shared = any(eid2 != eid and (set(r) | set(p)) & (set(r2) | set(p2)) for eid2, (r2, p2, _) in m.rx.items())
                if shared:
                    flags["rm_after_add"] = True
                if merged_or_copied:
                    flags["edit_after_merge"] = True
                hg.remove_rxn(eid)
                m.rm_rxn(eid)
        elif kind == "rm_sp":
            _, n, s, prune = op
            hg, m = nets[n], models[n]
            if s not in m.species():
                try:
                    hg.remove_species(s, prune_orphans=prune)
                except KeyError:
                    pass
                else:
                    raise Violation("rejection", f"step {step}: removing unknown species {s} did not raise")
            else:
                if sum(1 for r, p, _ in m.rx.values() if s in r or s in p) >= 1:
                    flags["rm_after_add"] = True
                if merged_or_copied:
                    flags["edit_after_merge"] = True
                hg.remove_species(s, prune_orphans=prune)
                m.rm_species(s, prune)
        elif kind == "merge":
            _, dst, src, prefix = op
            hg, m = nets[dst], models[dst]
            other, om = nets[src], models[src]
            before = dict(m.rx)
            incoming = [(e.id, dict(e.reactants.items()), dict(e.products.items()), e.rule) for e in other.edge_list()]
            hg.merge(other, prefix_edges=prefix)
            merged_or_copied = True
            new_ids = [k for k in hg.edges if k not in before]
            if len(new_ids) != len(incoming):
                lost = [k for k in before if k not in hg.edges]
                raise Violation(
                    "merge",
                    f"step {step}: merge of {len(incoming)} reactions created {len(new_ids)} new ids (ids before {sorted(before)}, after {sorted(hg.edges)}, lost {lost})",
                )
            got = sorted((hg.edges[k].rule, sorted(hg.edges[k].reactants.items()), sorted(hg.edges[k].products.items())) for k in new_ids)
            want = sorted((rule, sorted(r.items()), sorted(p.items())) for _, r, p, rule in incoming)
            if got != want:
                raise Violation("merge", f"step {step}: merged reactions {got} != source reactions {want}")
            if not prefix and not any(oid in before for oid, *_ in incoming):
                # no collision with an existing id -> nothing is regenerated, ids are kept
                for oid, r, p, rule in incoming:
                    if oid not in hg.edges or dict(hg.edges[oid].reactants.items()) != r or dict(hg.edges[oid].products.items()) != p:
                        raise Violation("merge", f"step {step}: id {oid} not preserved with prefix_edges=False")
            for k in new_ids:
                e = hg.edges[k]
                m.add(k, dict(e.reactants.items()), dict(e.products.items()), e.rule)
        elif kind == "copy":
            _, n = op
            frozen.append((nets[n].copy(), copy.deepcopy(models[n]), f"copy@{step}"))
            merged_or_copied = True
        elif kind == "fork":
            _, n = op
            c = nets[n].copy()
            frozen.append((nets[n], copy.deepcopy(models[n]), f"original@{step}"))
            nets[n] = c
            merged_or_copied = True
        elif kind == "assign":
            _, n, s, lab = op
            hg, m = nets[n], models[n]
            if s in m.species():
                hg.assign_mol(s, lab)
                m.mol[s] = lab
            else:
                try:
                    hg.assign_mol(s, lab)
                except KeyError:
                    pass
                else:
                    raise Violation("rejection", f"step {step}: label for unknown species {s} accepted")
        elif kind == "set_mol":
            _, n, mp, strict, clear = op
            hg, m = nets[n], models[n]
            unknown = set(mp) - m.species()
            if strict and unknown:
                try:
                    hg.set_mol_map(mp, strict=True, clear_existing=clear)
                except KeyError:
                    pass
                else:
                    raise Violation("rejection", f"step {step}: strict set_mol_map accepted unknown {sorted(unknown)}")
            else:
                hg.set_mol_map(mp, strict=strict, clear_existing=clear)
                if clear:
                    m.mol.clear()
                for k, v in mp.items():
                    if k in m.species():
                        m.mol[k] = v
        else:
            raise ValueError(op)
        verify(step)
    rec.nt(any(flags.values()))
    for k, v in flags.items():
        if v:
            rec.label(k)
    rec.label(f"len{min(len(ops) // 10 * 10, 60)}")


def body(case, rec):
    run_history(case, rec)


# ------------------------------------------------------------------ exhaustive alphabet
SMALL_OPS = [
    ["add", 0, {"A": 1}, {"B": 1}, "r", None, 0],
    ["add", 0, {"A": 1, "B": 1}, {"C": 1}, "r", None, 3],
    ["add", 0, {"B": 1}, {"A": 1}, "q", None, 1],
    ["add", 0, {"A": 2}, {"C": 1}, "r", "r_1", 2],
    ["add", 0, {"C": 1}, {"A": 1}, "r", "r_2", 0],
    ["add", 0, {"A": 1}, {"C": 1}, "q", "x", 0],
    ["rm_rxn", 0, 0],
    ["rm_rxn", 0, 1],
    ["rm_sp", 0, "A", True],
    ["rm_sp", 0, "A", False],
    ["rm_sp", 0, "B", True],
    ["rm_sp", 0, "C", False],
    ["merge", 0, 1, True],
    ["merge", 0, 1, False],
    ["merge", 1, 0, False],
    ["copy", 0],
    ["fork", 0],
    ["assign", 0, "A", "molA"],
    ["set_mol", 0, {"A": "a", "B": "b"}, False, True],
    ["rm_rxn", 1, 0],
    ["rm_sp", 1, "B", True],
]
PRELUDE = [["add", 1, {"A": 1}, {"B": 1}, "r", None, 0], ["add", 1, {"B": 1, "C": 1}, {"A": 2}, "q", "q_1", 0]]


def enum_histories(tier):
    depth = 3 if tier == "quick" else 4
    for d in range(1, depth + 1):
        for combo in itertools.product(SMALL_OPS, repeat=d):
            yield PRELUDE + [list(o) for o in combo]


# ------------------------------------------------------------------ hypothesis histories
SPECIES = ["A", "B", "C", "D", "E", "F"]
RULES = ["r", "q", "s"]


def _side():
    return st.dictionaries(st.sampled_from(SPECIES), st.integers(0, 3), max_size=3)


def op_strategy():
    net = st.integers(0, 1)
    eid = st.one_of(
        st.none(),
        st.none(),
        st.builds(lambda r, k: f"{r}_{k}", st.sampled_from(RULES), st.integers(1, 6)),
        # multi-digit and boundary numbers (9 -> 10, 99 -> 100): ids a counter-based generator reaches late
        st.builds(lambda r, k: f"{r}_{k}", st.sampled_from(RULES), st.sampled_from([2, 3, 8, 9, 10, 11, 12, 13, 99, 100, 101])),
        st.sampled_from(["x", "y", "e1"]),
    )
    return st.one_of(
        st.tuples(st.just("add"), net, _side(), _side(), st.sampled_from(RULES + [None]), eid, st.integers(0, 3)),
        st.tuples(st.just("add"), net, _side(), _side(), st.sampled_from(RULES + [None]), eid, st.integers(0, 3)),
        st.tuples(st.just("add_str"), net, _side(), _side(), st.sampled_from(RULES + [None]), st.booleans()),
        st.tuples(st.just("rm_rxn"), net, st.integers(0, 7)),
        st.tuples(st.just("rm_sp"), net, st.sampled_from(SPECIES), st.booleans()),
        st.tuples(st.just("merge"), net, net, st.booleans()),
        st.tuples(st.just("copy"), net),
        st.tuples(st.just("fork"), net),
        st.tuples(st.just("assign"), net, st.sampled_from(SPECIES), st.sampled_from(["m1", "m2", 7])),
        st.tuples(
            st.just("set_mol"),
            net,
            st.dictionaries(st.sampled_from(SPECIES), st.sampled_from(["m1", "m2", "CCO"]), max_size=3),
            st.booleans(),
            st.booleans(),
        ),
    ).map(list)


def hist_strategy(tier):
    return st.lists(op_strategy(), min_size=1, max_size=60)


SUBS = [
    Sub(
        "exhaustive_histories",
        body,
        enum=enum_histories,
        exhaustive=True,
        shards={"quick": 16, "thorough": 16},
        doc="all histories to depth 3 (quick) / 4 (thorough) over a 21-op alphabet after a fixed 2-op prelude",
    ),
    Sub(
        "random_histories",
        body,
        strategy=hist_strategy,
        examples={"quick": 24000, "thorough": 400000},
        shards={"quick": 16, "thorough": 16},
        doc="Hypothesis lists of up to 60 operations over 6 species / 3 rules / two live networks plus copies",
    ),
]
