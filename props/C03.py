"""C03 - every reaction proposed by rule application is a genuine instance of the rule."""
from __future__ import annotations

from collections import defaultdict
from functools import lru_cache

from hypothesis import strategies as st

from vlib import chem_gen as cg
from vlib import rx_apply as rx
from vlib.oracles import iso
from vlib.runner import Sub, Violation

PROPERTY = "C03"
RULE = (
    "case = (template reaction, template kind centre|full ITS, substrate reaction, direction, strategy); substrate = "
    "unmapped reactants (products when backwards) of (a) the same reaction, (b) a reaction of the same centre class "
    "(constructed from an invariant key of the change signature, so foreign-but-applicable pairs are frequent), "
    "(c) any other reaction; reactor mode matched to the template's hydrogen style. Oracle per output: (a) substrate "
    "side preserved (RDKit unmapped key on the emitted string, labelled-graph isomorphism on the glued graph), "
    "(b) element counts incl. H and total charge conserved (own counter; only for templates that are themselves "
    "balanced), (c) change signature of the glued graph isomorphic to the template's. Non-trivial = >= 1 output and "
    "(foreign substrate or >= 2 outputs); distinct by the case tuple."
)
MAX_OUTPUTS = 400  # cases producing more glued graphs than this are sampled (first MAX_OUTPUTS checked)


def eligible():
    return [i for i, (_, _, style) in enumerate(cg.corpus()) if style != "mixed"]


@lru_cache(maxsize=None)
def centre_classes():
    """corpus index -> list of other indices with the same (style, multiset of changed-bond labels)."""
    groups = defaultdict(list)
    key_of = {}
    for i in eligible():
        rsmi, _, style = cg.corpus()[i]
        G, H, its = cg.reference_its(rsmi)
        lab = []
        for u, v, d in its.edges(data=True):
            if d["order"][0] != d["order"][1]:
                e = tuple(sorted((its.nodes[u]["tG"][0], its.nodes[v]["tG"][0])))
                lab.append((e, d["order"][0], d["order"][1]))
        k = (style, tuple(sorted(lab)))
        key_of[i] = k
        groups[k].append(i)
    return {i: [j for j in groups[key_of[i]] if j != i] for i in key_of}


def left_graph_of(g, side):
    """Labelled graph of one side of a glued ITS with explicit hydrogens folded into the heavy atoms."""
    import networkx as nx

    out = nx.Graph()
    for n, d in g.nodes(data=True):
        t = d["typesGH"][side]
        if t[0] == "H":
            continue
        out.add_node(n, element=t[0], charge=t[3], h=rx._side_h_total(g, n, side))
    for u, v, d in g.edges(data=True):
        if u in out and v in out and d["order"][side]:
            out.add_edge(u, v, order=float(d["order"][side]))
    # free hydrogens (H2, H+) stay as nodes
    for n, d in g.nodes(data=True):
        t = d["typesGH"][side]
        if t[0] == "H" and not any(g.nodes[m]["typesGH"][side][0] != "H" and g[n][m]["order"][side] for m in g[n]):
            out.add_node(n, element="H", charge=t[3], h=sum(1 for m in g[n] if g[n][m]["order"][side]))
    return out


def substrate_graph(smiles):
    import networkx as nx

    m = cg.parse(smiles)
    g = nx.Graph()
    for a in m.GetAtoms():
        if a.GetAtomicNum() == 1 and any(nb.GetAtomicNum() != 1 for nb in a.GetNeighbors()):
            continue
        hn = sum(1 for nb in a.GetNeighbors() if nb.GetAtomicNum() == 1)
        g.add_node(a.GetIdx(), element=a.GetSymbol(), charge=a.GetFormalCharge(), h=a.GetTotalNumHs() + (hn if a.GetAtomicNum() != 1 else hn))
    for b in m.GetBonds():
        u, v = b.GetBeginAtomIdx(), b.GetEndAtomIdx()
        if u in g and v in g and not (g.nodes[u]["element"] == "H" and g.nodes[v]["element"] == "H"):
            g.add_edge(u, v, order=b.GetBondTypeAsDouble())
    return g


def body(case, rec):
    ti, si = case["tpl"], case["sub"]
    kind, invert, strategy = case["kind"], case["invert"], case["strategy"]
    t_rsmi, _, style = cg.corpus()[ti]
    s_rsmi = cg.corpus()[si][0]
    if rx.slow_known(t_rsmi, kind, invert):
        rec.label("excluded:slow-h2-full-its-backward")
        return
    facts = rx.reaction_facts(t_rsmi)
    r, p = s_rsmi.split(">>")
    substrate = cg.unmapped(p if invert else r)
    tpl = rx.template_graph(t_rsmi, kind)
    reactor = rx.make_reactor(substrate, tpl, invert, strategy, style, embed_threshold=3000)
    its_list = reactor.its_list
    out = reactor.smarts_list
    foreign = ti != si
    rec.nt(len(out) >= 1 and (foreign or len(out) >= 2))
    rec.label(f"style={style}", f"kind={kind}", "backward" if invert else "forward", f"strategy={strategy}",
              "own" if not foreign else ("class-mate" if si in centre_classes().get(ti, []) else "other"),
              "outputs=0" if not out else ("outputs=1" if len(out) == 1 else "outputs>=2"))
    rec.show(dict(template=t_rsmi[:160], substrate=substrate[:120], kind=kind, invert=invert, strategy=strategy, outputs=len(out)))
    if not out and not its_list:
        return
    where = f"tpl=corpus[{ti}] {kind} sub=corpus[{si}] {'bw' if invert else 'fw'} {strategy}"
    sub_key = cg.side_key(substrate)
    sub_formula = cg.side_formula(substrate)
    # balanced template: the full reaction is balanced incl. H and charge, and (centre) nothing changes outside it
    tpl_balanced = facts["balanced"] and (kind == "its" or not facts["outside_change"])
    # ---- clauses on the emitted strings
    for s in out[:MAX_OUTPUTS]:
        a, b = s.split(">>")
        kept = b if invert else a
        if cg.side_key(kept) != sub_key:
            raise Violation("substrate-not-preserved", f"{where}: output {s[:300]} does not keep the substrate {substrate}")
        fa, fb = cg.side_formula(a), cg.side_formula(b)
        if fa is None or fb is None:
            raise Violation("unparsable-output", f"{where}: {s[:300]}")
        if tpl_balanced and fa != fb:
            raise Violation("not-conserved", f"{where}: {s[:300]}: {dict(fa[0])}/{fa[1]} vs {dict(fb[0])}/{fb[1]}")
    # ---- clauses on the glued graphs
    tsig = rx.change_signature(reactor.rule.rc.raw if False else tpl, swap=invert)
    sgraph = substrate_graph(substrate)
    for g in its_list[:MAX_OUTPUTS]:
        sig = rx.change_signature(g, swap=False)
        if not rx.signatures_isomorphic(sig, tsig):
            raise Violation(
                "change-differs-from-template",
                f"{where}: result changes {rx.sig_summary(sig)}, template changes {rx.sig_summary(tsig)}",
            )
        left = left_graph_of(g, 0)
        if not iso.is_isomorphic(
            left, sgraph,
            lambda x, y: (x["element"], x["charge"], x["h"]) == (y["element"], y["charge"], y["h"]),
            lambda x, y: x["order"] == y["order"],
        ):
            raise Violation("substrate-graph-altered", f"{where}: reactant side of a glued graph is not the substrate")


def strat(tier):
    el = eligible()
    cls = centre_classes()

    def pick_sub(t):
        mates = cls.get(t, [])
        opts = [st.just(t)]
        if mates:
            opts += [st.sampled_from(mates), st.sampled_from(mates)]
        opts.append(st.sampled_from(el))
        return st.one_of(*opts)

    return st.sampled_from(el).flatmap(
        lambda t: st.fixed_dictionaries(
            dict(tpl=st.just(t), sub=pick_sub(t), kind=st.sampled_from(["rc", "rc", "its"]), invert=st.booleans(), strategy=st.sampled_from(rx.STRATEGIES))
        )
    )


def enum_own(tier):
    for i in eligible():
        for kind in ("its", "rc"):
            for invert in (False, True):
                for s in rx.STRATEGIES:
                    yield dict(tpl=i, sub=i, kind=kind, invert=invert, strategy=s)


SUBS = [
    Sub("pairs", body, strategy=strat, examples={"quick": 9000, "thorough": 90000}, shards={"quick": 16, "thorough": 16}),
    Sub("own_pairs", body, enum=lambda tier: enum_own(tier) if tier == "thorough" else [], exhaustive=("thorough",), shards={"quick": 1, "thorough": 16}),
]
