"""C10 - changing representation (SMILES, graph, explicit/implicit H, GML) loses nothing."""
from __future__ import annotations

import copy

import networkx as nx
from hypothesis import strategies as st
from rdkit import Chem

from vlib import c10_molecules, c10_reactions, chem_gen
from vlib.oracles import iso
from vlib.runner import Sub, Violation

PROPERTY = "C10"
RULE = (
    "molecules: every distinct fragment of the corpus reactions (atom maps, stereo and isotopes stripped, explicit H "
    "atoms kept as written) plus a vendored list of closed-shell, stereo-free molecules (charged, zwitterionic, "
    "aromatic, hetero-aromatic incl. [nH], fused, hypervalent S/P/halogen, ions) - each as written (exhaustive) and "
    "under generated atom re-orderings / atom-map numberings (Hypothesis). Reactions: every well-formed corpus "
    "reaction plus a short vendored list with multiply charged centres - as written (exhaustive) and under generated "
    "atom-map renumbering, atom re-ordering and fragment shuffles (checked to be identities on the chemistry before "
    "use). Oracles: RDKit for molecules (canonical SMILES, AddHs/RemoveHs, H counts; a label-preserving graph "
    "isomorphism by own backtracking decides when two canonical strings differ), an own regular-expression reader of "
    "the GML text and own brute-force isomorphism for rules. Non-trivial: molecule with a charged or aromatic atom "
    "(hydrogen part: and at least one hydrogen); rule whose centre has a charge change, a non-single bond order or a "
    "hydrogen atom; full-ITS export: ITS strictly larger than its centre. Distinct by the rewritten input string."
)
ASSUMPTIONS = [
    "rsmi_to_its / get_rc are taken as given here (they are the subjects of C01/C02); C10 asserts only that the GML "
    "export/import and the three export routes agree with the ITS / centre they are given",
    "GML carries element, formal charge and bond order only: hcount and aromatic flags are not compared after a GML "
    "trip",
    "implicit direction (h_to_implicit, implicit_hydrogen) is exercised only on graphs in which every H node has "
    "exactly one neighbour and that neighbour is a heavy atom (documented assumption of h_to_implicit); H2, H+ and "
    "hydride are outside it",
    "the restore clause h_to_implicit(h_to_explicit(g)) == g is asserted only for graphs without explicit H nodes",
]

MOL_KEYS = ("element", "charge", "hcount", "aromatic")
_mol_node_ok = iso.eq_on(MOL_KEYS)
_mol_edge_ok = iso.eq_on(("order",))
_lab_ok = lambda a, b: a["l"] == b["l"]  # noqa: E731


# ====================================================================== RDKit-side reference helpers
def _parse(s):
    m = chem_gen.parse(s)
    assert m is not None, f"generator produced an unparsable SMILES {s!r}"
    return m


def _canon(m):
    return Chem.MolToSmiles(m, isomericSmiles=False)


def _ref_graph(m, key="idx"):
    """Reference molecular graph straight from RDKit: element, charge, total H on the atom (explicit H *atoms* are
    nodes of their own and not counted), aromatic flag; bond order as a float."""
    g = nx.Graph()
    ident = (lambda a: a.GetIdx() + 1) if key == "idx" else (lambda a: a.GetAtomMapNum())
    for a in m.GetAtoms():
        g.add_node(ident(a), element=a.GetSymbol(), charge=a.GetFormalCharge(), hcount=a.GetTotalNumHs(),
                   aromatic=a.GetIsAromatic())
    for b in m.GetBonds():
        g.add_edge(ident(b.GetBeginAtom()), ident(b.GetEndAtom()), order=b.GetBondTypeAsDouble())
    return g


def _h_total_mol(m):
    return sum(a.GetTotalNumHs() + (a.GetAtomicNum() == 1) for a in m.GetAtoms())


def _h_total_graph(g):
    return sum(int(d.get("hcount", 0)) + (d.get("element") == "H") for _, d in g.nodes(data=True))


def _same_molecule(smiles_a, mol_b):
    """Molecule identity that does not lean on canonicalisation alone: canonical strings, and if they differ a
    label-preserving isomorphism of the two RDKit graphs decides."""
    ma = chem_gen.parse(smiles_a) if smiles_a else None
    if ma is None:
        return False, False
    for a in ma.GetAtoms():
        a.SetAtomMapNum(0)
    if _canon(ma) == _canon(mol_b):
        return True, False
    same = iso.is_isomorphic(_ref_graph(ma), _ref_graph(mol_b), _mol_node_ok, _mol_edge_ok)
    return same, same


def _diff_graph(got, ref, keys=MOL_KEYS):
    """First difference between a SynKit molecular graph and the reference on ids, the compared attributes, edges."""
    if set(got.nodes) != set(ref.nodes):
        return f"node ids {sorted(set(got.nodes) ^ set(ref.nodes))[:6]} on one side only"
    for n in ref.nodes:
        a = tuple(got.nodes[n].get(k) for k in keys)
        b = tuple(ref.nodes[n].get(k) for k in keys)
        if a != b:
            return f"atom {n}: {dict(zip(keys, a))} != reference {dict(zip(keys, b))}"
    eg, er = {frozenset(e) for e in got.edges}, {frozenset(e) for e in ref.edges}
    if eg != er:
        return f"bonds {sorted(map(sorted, eg ^ er))[:4]} on one side only"
    for u, v, d in ref.edges(data=True):
        if got.edges[u, v].get("order") != d["order"]:
            return f"bond {u}-{v}: order {got.edges[u, v].get('order')} != reference {d['order']}"
    return None


def _mol_input(case, rec):
    """Rebuild the molecule writing from the case; generator-side identity check; labels and non-triviality."""
    s0 = case["smiles"]
    m0 = _parse(s0)
    s = chem_gen.reorder_side(s0, case["perm"]) if case.get("perm") else s0
    m = _parse(s)
    assert _canon(m) == _canon(m0) or iso.is_isomorphic(_ref_graph(m), _ref_graph(m0), _mol_node_ok, _mol_edge_ok), (
        f"re-ordering changed the molecule: {s0} -> {s}"
    )
    assert not any(a.GetNumRadicalElectrons() or a.GetIsotope() for a in m.GetAtoms()), f"outside the domain: {s}"
    charged = any(a.GetFormalCharge() for a in m.GetAtoms())
    arom = any(a.GetIsAromatic() for a in m.GetAtoms())
    expl_h = any(a.GetAtomicNum() == 1 for a in m.GetAtoms())
    labels = [f"src={case.get('src', '?')}", "rewritten" if case.get("perm") else "as-written"]
    labels += ["charged"] if charged else []
    labels += ["aromatic"] if arom else []
    labels += ["explicit-H-atoms"] if expl_h else []
    labels += ["aromatic-nH"] if any(a.GetIsAromatic() and a.GetSymbol() == "N" and a.GetTotalNumHs() for a in m.GetAtoms()) else []
    labels += ["abs-charge>=2"] if any(abs(a.GetFormalCharge()) >= 2 for a in m.GetAtoms()) else []
    labels += ["hypervalent-S/P/X"] if any(
        a.GetSymbol() in ("S", "P", "Cl", "Br", "I", "Xe") and a.GetTotalValence() > {"S": 2, "P": 3}.get(a.GetSymbol(), 1)
        and a.GetFormalCharge() == 0 for a in m.GetAtoms()) else []
    labels += ["single-atom"] if m.GetNumAtoms() == 1 else []
    labels += ["fused-rings"] if any(len([r for r in m.GetRingInfo().AtomRings() if a.GetIdx() in r]) >= 2 for a in m.GetAtoms()) else []
    labels += ["size>=30"] if m.GetNumAtoms() >= 30 else []
    rec.label(*labels)
    rec.distinct_key(s)
    rec.show(dict(smiles=s, canonical=_canon(m)))
    return s, m, charged, arom, expl_h


# ====================================================================== 1. SMILES -> graph -> SMILES
def body_mol(case, rec):
    from synkit.IO.chem_converter import graph_to_smi, smiles_to_graph

    s, m, charged, arom, _ = _mol_input(case, rec)
    rec.nt(charged or arom)
    ref = _canon(m)

    g = smiles_to_graph(s)  # documented defaults keep every atom; node id = atom index + 1
    if g is None:
        raise Violation("smiles_to_graph-none", f"{s}: no graph for a sanitisable molecule")
    why = _diff_graph(g, _ref_graph(m))
    if why:
        raise Violation("graph-content", f"{s}: {why}")
    out = graph_to_smi(g)
    if out != ref:
        same, quirk = _same_molecule(out, m)
        if not same:
            raise Violation("smiles-roundtrip", f"{s}: graph_to_smi(smiles_to_graph(s)) = {out!r}, RDKit canonical {ref!r}")
        if quirk:
            rec.label("canonical-strings-differ-but-isomorphic")
    if graph_to_smi(g, sanitize=False) is None:
        raise Violation("smiles-roundtrip", f"{s}: graph_to_smi(sanitize=False) gives None")

    # mapped writing: ids are the atom-map numbers, which must come back on the same atoms
    if case.get("maps"):
        mm = Chem.Mol(m)
        n = mm.GetNumAtoms()
        perm = chem_gen._perm_from_keys(case["maps"], n)
        off = case["maps"][0] % 50
        for a in mm.GetAtoms():
            a.SetAtomMapNum(perm[a.GetIdx()] + 1 + off)
        sm = Chem.MolToSmiles(mm, canonical=False)
        mm = _parse(sm)
        gm = smiles_to_graph(sm, drop_non_aam=True, use_index_as_atom_map=True)
        if gm is None:
            raise Violation("smiles_to_graph-none", f"{sm}: no graph for a sanitisable mapped molecule")
        why = _diff_graph(gm, _ref_graph(mm, key="map"))
        if why:
            raise Violation("graph-content", f"{sm} (ids = atom maps): {why}")
        bad = [k for k, d in gm.nodes(data=True) if d.get("atom_map") != k]
        if bad:
            raise Violation("graph-content", f"{sm}: atom_map attribute differs from the map number on atoms {bad[:5]}")
        outm = graph_to_smi(gm)
        mo = chem_gen.parse(outm) if outm else None
        if mo is None:
            raise Violation("mapped-roundtrip", f"{sm}: graph_to_smi gives {outm!r}")
        # same molecule with the same map number on every atom: compare the map-keyed reference graphs exactly
        why = _diff_graph(_ref_graph(mo, key="map"), _ref_graph(mm, key="map"))
        if why or mo.GetNumAtoms() != mm.GetNumAtoms():
            raise Violation("mapped-roundtrip", f"{sm} -> {outm}: {why or 'atom count differs'}")
        rec.label("with-mapped-writing")


# ====================================================================== 2. explicit / implicit hydrogens
def _exact_equal(a, b):
    if set(a.nodes) != set(b.nodes):
        return f"node ids differ: {sorted(set(a.nodes) ^ set(b.nodes))[:6]}"
    for n in b.nodes:
        if dict(a.nodes[n]) != dict(b.nodes[n]):
            return f"atom {n}: {dict(a.nodes[n])} != {dict(b.nodes[n])}"
    ea, eb = {frozenset(e) for e in a.edges}, {frozenset(e) for e in b.edges}
    if ea != eb:
        return f"bonds {sorted(map(sorted, ea ^ eb))[:4]} on one side only"
    for u, v, d in b.edges(data=True):
        if dict(a.edges[u, v]) != dict(d):
            return f"bond {u}-{v}: {dict(a.edges[u, v])} != {dict(d)}"
    return None


def _terminal_h_only(g):
    for n, d in g.nodes(data=True):
        if d.get("element") == "H":
            nb = list(g.neighbors(n))
            if len(nb) != 1 or g.nodes[nb[0]].get("element") == "H":
                return False
    return True


def _explicit_and_back(s, g, ref, mh, heavy, htot, expl_h, rec):
    """h_to_explicit on g (ids as given, `ref` = RDKit reference graph on the same ids), then h_to_implicit."""
    from synkit.Graph.Hyrogen._misc import h_to_explicit, h_to_implicit
    from synkit.IO.chem_converter import graph_to_smi

    why = _diff_graph(g, ref)
    if why:
        raise Violation("graph-content", f"{s}: {why}")
    g0 = copy.deepcopy(g)

    # ---- explicit direction
    ge = h_to_explicit(g)
    if _exact_equal(g, g0):
        raise Violation("input-modified", f"{s}: h_to_explicit changed its argument: {_exact_equal(g, g0)}")
    new = [n for n in ge.nodes if n not in g]
    gone = [n for n in g.nodes if n not in ge]
    if gone:
        raise Violation("explicit-structure", f"{s}: atoms {gone[:5]} disappeared")
    for n, d in g.nodes(data=True):
        de = ge.nodes[n]
        if (de.get("element"), de.get("charge"), de.get("aromatic")) != (d["element"], d["charge"], d["aromatic"]):
            raise Violation("explicit-structure", f"{s}: atom {n} relabelled {dict(d)} -> {dict(de)}")
        if de.get("hcount") != 0:
            raise Violation("explicit-structure", f"{s}: atom {n} keeps hcount {de.get('hcount')} after all H were made explicit")
        added = [x for x in ge.neighbors(n) if x in new]
        if len(added) != d["hcount"]:
            raise Violation("explicit-structure", f"{s}: atom {n} with hcount {d['hcount']} received {len(added)} H nodes")
    for u, v, d in g.edges(data=True):
        if not ge.has_edge(u, v) or ge.edges[u, v].get("order") != d["order"]:
            raise Violation("explicit-structure", f"{s}: bond {u}-{v} changed")
    if ge.number_of_edges() != g.number_of_edges() + len(new):
        raise Violation("explicit-structure", f"{s}: {ge.number_of_edges()} bonds, expected {g.number_of_edges() + len(new)}")
    for x in new:
        dx = ge.nodes[x]
        if (dx.get("element"), dx.get("charge"), dx.get("hcount"), dx.get("aromatic")) != ("H", 0, 0, False) or ge.degree(x) != 1:
            raise Violation("explicit-structure", f"{s}: new node {x} is {dict(dx)} with degree {ge.degree(x)}")
        (p,) = ge.neighbors(x)
        if ge.edges[x, p].get("order") != 1:
            raise Violation("explicit-structure", f"{s}: new H-{p} bond has order {ge.edges[x, p].get('order')}")
    if _h_total_graph(ge) != htot or _h_total_graph(g) != htot:
        raise Violation("h-total", f"{s}: {htot} hydrogens in the molecule, {_h_total_graph(g)} in the graph, {_h_total_graph(ge)} after h_to_explicit")
    # the explicit graph is the same molecule: against RDKit's own AddHs, label-preserving isomorphism
    if not iso.is_isomorphic(ge, _ref_graph(mh), _mol_node_ok, _mol_edge_ok):
        raise Violation("explicit-molecule", f"{s}: h_to_explicit graph is not isomorphic to RDKit AddHs of the molecule")
    se = graph_to_smi(ge)
    same, _ = _same_molecule(se, mh)
    if not same:
        raise Violation("explicit-molecule", f"{s}: graph_to_smi(h_to_explicit(g)) = {se!r} is not the molecule with all H explicit")

    # ---- and implicit again
    ge0 = copy.deepcopy(ge)
    gi = h_to_implicit(ge)
    if _exact_equal(ge, ge0):
        raise Violation("input-modified", f"{s}: h_to_implicit changed its argument: {_exact_equal(ge, ge0)}")
    if not expl_h:
        why = _exact_equal(gi, g)
        if why:
            raise Violation("roundtrip-restores", f"{s}: h_to_implicit(h_to_explicit(g)) != g: {why}")
        if rec is not None:
            rec.label("restore-clause-checked")
    if heavy is not None:
        if rec is not None:
            rec.label("implicit-direction-checked")
        if any(d.get("element") == "H" for _, d in gi.nodes(data=True)):
            raise Violation("implicit-molecule", f"{s}: H nodes left after h_to_implicit")
        if _h_total_graph(gi) != htot:
            raise Violation("h-total", f"{s}: {htot} hydrogens, {_h_total_graph(gi)} after h_to_implicit")
        # heavy atoms keep their ids: compare with the reference graph of the molecule, H folded into the counts
        ref_i = ref.copy()
        for n, d in list(ref_i.nodes(data=True)):
            if d["element"] == "H":
                (p,) = ref_i.neighbors(n)
                ref_i.nodes[p]["hcount"] += 1
                ref_i.remove_node(n)
        why = _diff_graph(gi, ref_i)
        if why:
            raise Violation("implicit-molecule", f"{s}: h_to_implicit graph: {why}")
        si = graph_to_smi(gi)
        same, _ = _same_molecule(si, heavy)
        if not same:
            raise Violation("implicit-molecule", f"{s}: graph_to_smi after h_to_implicit = {si!r}, molecule is {_canon(heavy)!r}")


def _explicit_subset(s, g, case, htot, expl_h, rec):
    """h_to_explicit on a generated subset of the atoms (the documented `nodes` argument): only the listed atoms are
    expanded, nothing else changes, total H and the molecule stay the same, and h_to_implicit restores the graph."""
    from synkit.Graph.Hyrogen._misc import h_to_explicit, h_to_implicit
    from synkit.IO.chem_converter import graph_to_smi

    keys = case.get("maps") or case.get("perm") or [0, 1, 1, 0, 2]
    heavy_nodes = [n for n, d in g.nodes(data=True) if d.get("element") != "H"]
    subset = [n for i, n in enumerate(heavy_nodes) if keys[i % len(keys)] % 2 == 0]
    if not subset or len(subset) == len(heavy_nodes):
        subset = heavy_nodes[:1] if len(heavy_nodes) > 1 else []
    if not subset:
        return
    g0 = copy.deepcopy(g)
    ge = h_to_explicit(g, list(subset))
    if _exact_equal(g, g0) is not None:
        raise Violation("input-mutated", f"{s}: h_to_explicit(nodes={subset}) changed its input")
    new = [n for n in ge.nodes if n not in g]
    if set(g.nodes) - set(ge.nodes):
        raise Violation("explicit-subset", f"{s}: h_to_explicit(nodes={subset}) lost atoms {sorted(set(g.nodes) - set(ge.nodes))}")
    for n in g.nodes:
        a, b = g.nodes[n], ge.nodes[n]
        if any(a.get(k) != b.get(k) for k in ("element", "charge", "aromatic")):
            raise Violation("explicit-subset", f"{s}: h_to_explicit(nodes={subset}) changed atom {n}: {dict(a)} -> {dict(b)}")
        nh = sum(1 for x in ge[n] if x in new)
        if n in subset:
            if b.get("hcount", 0) != 0 or nh != a.get("hcount", 0):
                raise Violation("explicit-subset", f"{s}: atom {n} in nodes={subset}: hcount {a.get('hcount', 0)} -> {b.get('hcount', 0)} with {nh} new H")
        elif b.get("hcount", 0) != a.get("hcount", 0) or nh:
            raise Violation("explicit-subset", f"{s}: atom {n} NOT in nodes={subset} was touched: hcount {a.get('hcount', 0)} -> {b.get('hcount', 0)}, {nh} new H")
    for h in new:
        if ge.nodes[h].get("element") != "H" or ge.degree[h] != 1:
            raise Violation("explicit-subset", f"{s}: new node {h} is {dict(ge.nodes[h])} with degree {ge.degree[h]}")
    for u, v, d in g.edges(data=True):
        if not ge.has_edge(u, v) or ge[u][v].get("order") != d.get("order"):
            raise Violation("explicit-subset", f"{s}: bond {u}-{v} changed by h_to_explicit(nodes={subset})")
    if _h_total_graph(ge) != htot:
        raise Violation("h-total", f"{s}: {htot} hydrogens, {_h_total_graph(ge)} after h_to_explicit(nodes={subset})")
    se = graph_to_smi(ge)
    me = chem_gen.parse(se) if se else None
    if me is None or chem_gen.side_key(se) != chem_gen.side_key(s):
        raise Violation("explicit-subset", f"{s}: molecule after h_to_explicit(nodes={subset}) is {se!r}")
    if not expl_h:
        back = h_to_implicit(ge)
        if _exact_equal(back, g0) is not None:
            raise Violation("implicit-roundtrip", f"{s}: h_to_implicit(h_to_explicit(g, nodes={subset})) != g: {_exact_equal(back, g0)}")
    # ---- a partially explicit graph built by hand (not through SynKit): one hydrogen of an atom that keeps further
    # implicit ones is written as a node; folding must give back g exactly and keep the hydrogen total
    multi = [n for n in heavy_nodes if g.nodes[n].get("hcount", 0) >= 2]
    if multi and not expl_h:
        a = multi[keys[0] % len(multi)]
        gp = copy.deepcopy(g)
        hid = max(gp.nodes) + 1 + keys[-1] % 3
        gp.nodes[a]["hcount"] -= 1
        gp.add_node(hid, element="H", aromatic=False, hcount=0, charge=0, atom_map=0)
        gp.add_edge(a, hid, order=1.0)
        gp0 = copy.deepcopy(gp)
        back = h_to_implicit(gp)
        if _exact_equal(gp, gp0) is not None:
            raise Violation("input-mutated", f"{s}: h_to_implicit changed its input")
        if _h_total_graph(back) != htot:
            raise Violation("h-total", f"{s}: {htot} hydrogens, {_h_total_graph(back)} after h_to_implicit of a graph with one explicit H on atom {a} (hcount {g.nodes[a].get('hcount')})")
        if _exact_equal(back, g0) is not None:
            raise Violation("implicit-partial", f"{s}: folding one explicit H on atom {a} does not restore the graph: {_exact_equal(back, g0)}")
        if rec is not None:
            rec.label("partially-explicit-checked")
    if rec is not None:
        rec.label("explicit-subset-checked")


def body_hyd(case, rec):
    from synkit.Graph.Hyrogen._misc import h_to_explicit, h_to_implicit, implicit_hydrogen
    from synkit.IO.chem_converter import graph_to_smi, smiles_to_graph

    s, m, charged, arom, expl_h = _mol_input(case, rec)
    htot = _h_total_mol(m)
    rec.nt((charged or arom) and htot > 0)
    heavy = Chem.RemoveHs(Chem.Mol(m), sanitize=True) if _terminal_h_mol(m) else None
    assert heavy is None or not any(a.GetAtomicNum() == 1 for a in heavy.GetAtoms()), f"RemoveHs left H atoms in {s}"
    mh = Chem.AddHs(Chem.Mol(m))
    g = smiles_to_graph(s)
    if g is None:
        raise Violation("smiles_to_graph-none", f"{s}: no graph for a sanitisable molecule")
    _explicit_and_back(s, g, _ref_graph(m), mh, heavy, htot, expl_h, rec)
    _explicit_subset(s, g, case, htot, expl_h, rec)
    if case.get("maps"):
        # the same on a graph whose ids are sparse, unordered atom-map numbers (as in reaction graphs)
        mm = Chem.Mol(m)
        perm = chem_gen._perm_from_keys(case["maps"], mm.GetNumAtoms())
        for a in mm.GetAtoms():
            a.SetAtomMapNum(3 * perm[a.GetIdx()] + 2 + case["maps"][0] % 50)
        sm = Chem.MolToSmiles(mm, canonical=False)
        gm = smiles_to_graph(sm, drop_non_aam=True, use_index_as_atom_map=True)
        if gm is None:
            raise Violation("smiles_to_graph-none", f"{sm}: no graph for a sanitisable mapped molecule")
        _explicit_and_back(sm, gm, _ref_graph(_parse(sm), key="map"), mh, heavy, htot, expl_h, None)
        rec.label("sparse-ids-checked")
    if heavy is not None:
        # ---- independent source of an all-explicit graph: RDKit writes every H as an atom
        sh = Chem.MolToSmiles(mh, canonical=False) if not case.get("perm") else chem_gen.reorder_side(Chem.MolToSmiles(mh), case["perm"])
        gh = smiles_to_graph(sh)
        if gh is None:
            raise Violation("smiles_to_graph-none", f"{sh}: no graph")
        gh0 = copy.deepcopy(gh)
        gi2 = h_to_implicit(gh)
        if _h_total_graph(gh) != htot or _h_total_graph(gi2) != htot:
            raise Violation("h-total", f"{sh}: {htot} hydrogens, graph {_h_total_graph(gh)}, after h_to_implicit {_h_total_graph(gi2)}")
        if any(d.get("element") == "H" for _, d in gi2.nodes(data=True)) or not iso.is_isomorphic(
            gi2, _ref_graph(heavy), _mol_node_ok, _mol_edge_ok
        ):
            raise Violation("implicit-molecule", f"{sh}: h_to_implicit graph is not the molecule with all H implicit")
        si2 = graph_to_smi(gi2)
        same, _ = _same_molecule(si2, heavy)
        if not same:
            raise Violation("implicit-molecule", f"{sh}: graph_to_smi after h_to_implicit = {si2!r}, molecule is {_canon(heavy)!r}")

        # ---- implicit_hydrogen: fold every H except those whose atom map is listed
        h_ids = sorted(n for n, d in gh0.nodes(data=True) if d["element"] == "H")
        keys = case.get("maps") or []
        keep = [h for i, h in enumerate(h_ids) if keys and keys[i % len(keys)] % 3 == 0]
        gmapped = copy.deepcopy(gh0)
        for n in gmapped.nodes:
            gmapped.nodes[n]["atom_map"] = n
        gp = implicit_hydrogen(copy.deepcopy(gmapped), set(keep))
        left = sorted(n for n, d in gp.nodes(data=True) if d["element"] == "H")
        if left != keep:
            raise Violation("implicit_hydrogen", f"{sh}: preserved H {keep}, H nodes left {left}")
        if _h_total_graph(gp) != htot:
            raise Violation("h-total", f"{sh}: {htot} hydrogens, {_h_total_graph(gp)} after implicit_hydrogen(preserve={keep})")
        sp = graph_to_smi(gp)
        mp_ = chem_gen.parse(sp) if sp else None
        if mp_ is None or not iso.is_isomorphic(_ref_graph(Chem.RemoveHs(mp_)), _ref_graph(heavy), _mol_node_ok, _mol_edge_ok):
            raise Violation("implicit_hydrogen", f"{sh}: molecule after implicit_hydrogen(preserve={keep}) is {sp!r}")
        if keep:
            rec.label("implicit_hydrogen-with-preserved-H")


def _terminal_h_mol(m):
    for a in m.GetAtoms():
        if a.GetAtomicNum() == 1:
            nb = a.GetNeighbors()
            if len(nb) != 1 or nb[0].GetAtomicNum() == 1:
                return False
    return True


# ====================================================================== 3. GML
def _lab_its(g):
    """Overlay graph of an ITS: node l=(elG, qG, elH, qH) from typesGH, edge l=(orderG, orderH)."""
    h = nx.Graph()
    for n, d in g.nodes(data=True):
        t = d["typesGH"]
        h.add_node(n, l=(t[0][0], t[0][3], t[1][0], t[1][3]))
    for u, v, d in g.edges(data=True):
        o = d["order"]
        h.add_edge(u, v, l=(float(o[0]), float(o[1])))
    return h


def _lab_diff(a, b):
    """Exact comparison of two overlay graphs on the same ids."""
    if set(a.nodes) != set(b.nodes):
        return f"atoms {sorted(set(a.nodes) ^ set(b.nodes))[:6]} on one side only"
    for n in b.nodes:
        if a.nodes[n]["l"] != b.nodes[n]["l"]:
            return f"atom {n}: {a.nodes[n]['l']} != {b.nodes[n]['l']}"
    ea, eb = {frozenset(e) for e in a.edges}, {frozenset(e) for e in b.edges}
    if ea != eb:
        return f"bonds {sorted(map(sorted, ea ^ eb))[:4]} on one side only"
    for u, v, d in b.edges(data=True):
        if a.edges[u, v]["l"] != d["l"]:
            return f"bond {u}-{v}: (before, after) {a.edges[u, v]['l']} != {d['l']}"
    return None


def _lab_iso(a, b):
    return iso.is_isomorphic(a, b, _lab_ok, _lab_ok)


def _summ(g):
    return f"{g.number_of_nodes()} atoms / {g.number_of_edges()} bonds"


def _rxn_input(case, rec):
    from synkit.Graph.ITS.its_decompose import get_rc
    from synkit.IO.chem_converter import rsmi_to_its

    rsmi0 = case["rsmi"]
    spec = case.get("spec")
    rsmi = chem_gen.variant(rsmi0, spec) if spec else rsmi0
    its = rsmi_to_its(rsmi)
    rc = get_rc(its)
    A, F = _lab_its(rc), _lab_its(its)
    chg = any(l[1] != l[3] for _, l in A.nodes(data="l"))
    nonsingle = any(set(l) - {0.0, 1.0} for _, _, l in A.edges(data="l"))
    hyd = any(l[0] == "H" for _, l in A.nodes(data="l"))
    labels = [f"src={case.get('src', '?')}", "rewritten" if spec else "as-written"]
    labels += ["centre-charge-change"] if chg else []
    labels += ["centre-abs-charge>=2"] if any(abs(l[1]) >= 2 or abs(l[3]) >= 2 for _, l in A.nodes(data="l")) else []
    labels += ["centre-aromatic-bond"] if any(1.5 in l for _, _, l in A.edges(data="l")) else []
    labels += ["centre-double/triple"] if any({2.0, 3.0} & set(l) for _, _, l in A.edges(data="l")) else []
    labels += ["centre-H-atom"] if hyd else []
    labels += ["centre-empty"] if A.number_of_nodes() == 0 else []
    labels += ["its-larger-than-centre"] if F.number_of_nodes() > A.number_of_nodes() else []
    labels += ["charged-atom-outside-centre"] if any((l[1] or l[3]) and n not in A for n, l in F.nodes(data="l")) else []
    labels += ["ids-not-1..n"] if sorted(F.nodes) != list(range(1, F.number_of_nodes() + 1)) else []
    if spec:
        labels += [f"rewrite:{k}" for k in ("maps", "atoms", "frags") if spec.get(k)]
    rec.label(*labels)
    rec.distinct_key(rsmi)
    rec.show(dict(rsmi=rsmi, centre=_summ(A), its=_summ(F)))
    return rsmi0, rsmi, its, rc, A, F, (chg or nonsingle or hyd) and A.number_of_edges() > 0


def _check_text(text, ref, exact, what, clause_prefix, rsmi):
    """One GML text against the overlay graph it must encode: own reader (export), SynKit reader (round trip), and
    the SynKit reader against the own reader (import)."""
    from synkit.IO.chem_converter import gml_to_its
    from synkit.IO.gml_to_nx import GMLToNX

    L, R, RG, problems = c10_reactions.read_rule(text)
    if problems:
        raise Violation(f"{clause_prefix}:wellformed", f"{rsmi}: {what}: {problems[:3]}")
    why = _lab_diff(RG, ref) if exact else (None if _lab_iso(RG, ref) else "rule text is not isomorphic to the graph exported")
    if why:
        raise Violation(f"{clause_prefix}:export", f"{rsmi}: {what}: {why} (text {_summ(RG)}, graph {_summ(ref)})")
    back = _lab_its(gml_to_its(text))
    why = _lab_diff(back, ref) if exact else (None if _lab_iso(back, ref) else "re-imported ITS is not isomorphic to the graph exported")
    if why:
        raise Violation(f"{clause_prefix}:roundtrip", f"{rsmi}: {what}: {why} (back {_summ(back)}, graph {_summ(ref)})")
    l2, r2, k2 = GMLToNX(text).transform()
    for name, got, exp in (("left", l2, L), ("right", r2, R)):
        if set(got.nodes) != set(exp.nodes) or {frozenset(e) for e in got.edges} != {frozenset(e) for e in exp.edges}:
            raise Violation(f"{clause_prefix}:import", f"{rsmi}: {what}: {name} graph read by GMLToNX has other atoms/bonds than the text")
        for n, d in exp.nodes(data=True):
            if (got.nodes[n].get("element"), got.nodes[n].get("charge")) != (d["element"], d["charge"]):
                raise Violation(f"{clause_prefix}:import", f"{rsmi}: {what}: {name} atom {n} read as {dict(got.nodes[n])}, text says {d}")
        for u, v, d in exp.edges(data=True):
            if got.edges[u, v].get("order") != d["order"]:
                raise Violation(f"{clause_prefix}:import", f"{rsmi}: {what}: {name} bond {u}-{v} read as {got.edges[u, v].get('order')}, text says {d['order']}")
    why = _lab_diff(_lab_its(k2), RG)
    if why:
        raise Violation(f"{clause_prefix}:import", f"{rsmi}: {what}: ITS returned by GMLToNX vs text: {why}")
    return RG


def body_gml(case, rec):
    from synkit.IO.chem_converter import its_to_gml, smart_to_gml

    rsmi0, rsmi, its, rc, A, F, nt = _rxn_input(case, rec)
    rec.nt(nt)
    # centre given as centre: export, import, round trip (exact on ids without reindexing, isomorphism with)
    for reindex in (False, True):
        for core in (True, False):
            _check_text(its_to_gml(rc, core=core, reindex=reindex), A, not reindex,
                        f"its_to_gml(centre, core={core}, reindex={reindex})", "centre", rsmi)
    # full export of the full ITS
    for reindex in (False, True):
        _check_text(its_to_gml(its, core=False, reindex=reindex), F, not reindex,
                    f"its_to_gml(ITS, core=False, reindex={reindex})", "full", rsmi)
    # route from the reaction string
    RG1 = _check_text(smart_to_gml(rsmi), A, True, "smart_to_gml(rsmi)", "route-smart", rsmi)
    _check_text(smart_to_gml(rsmi, core=False), F, True, "smart_to_gml(rsmi, core=False)", "route-smart", rsmi)
    _check_text(smart_to_gml(rsmi, reindex=True), A, False, "smart_to_gml(rsmi, reindex=True)", "route-smart", rsmi)
    # the same reaction under another numbering / atom order / fragment order gives an equivalent rule
    if case.get("spec"):
        _, _, RG0, problems = c10_reactions.read_rule(smart_to_gml(rsmi0))
        if problems or not _lab_iso(RG0, RG1):
            raise Violation("renumbering", f"{rsmi0} vs {rsmi}: smart_to_gml rules are not isomorphic ({problems[:2]})")


def body_gml_full_core(case, rec):
    """its_to_gml(full ITS, core=True) must give the same rule as its_to_gml(centre) and smart_to_gml(rsmi)."""
    from synkit.IO.chem_converter import its_to_gml

    rsmi0, rsmi, its, rc, A, F, _ = _rxn_input(case, rec)
    rec.nt(F.number_of_nodes() > A.number_of_nodes())
    for reindex in (True, False):  # True is the documented default
        _check_text(its_to_gml(its, core=True, reindex=reindex), A, False,
                    f"its_to_gml(full ITS, core=True, reindex={reindex})", "full-its-core", rsmi)
    if not _rule_eq(its_to_gml(its), its_to_gml(rc)):
        raise Violation("full-its-core:export", f"{rsmi}: its_to_gml(ITS) and its_to_gml(centre) are different rules")


def _rule_eq(t1, t2):
    _, _, a, p1 = c10_reactions.read_rule(t1)
    _, _, b, p2 = c10_reactions.read_rule(t2)
    return not p1 and not p2 and _lab_iso(a, b)


# ====================================================================== attribution predicate (if the defect is recorded)
def full_its_context_leak(case, v, m):
    """True iff a violation on the full-ITS / core=True route is explained by the recorded defect: the ITS has atoms
    outside its centre (only then can its_to_gml write foreign atoms into the context section / merge ids under the
    partial relabelling), while the export of the centre alone is the correct rule."""
    from synkit.IO.chem_converter import its_to_gml

    if not v.clause.startswith("full-its-core:"):
        return False

    class _R:  # throw-away recorder
        label = nt = show = distinct_key = staticmethod(lambda *a, **k: None)

    _, _, its, rc, A, F, _ = _rxn_input(case, _R)
    if F.number_of_nodes() <= A.number_of_nodes():
        return False
    for reindex in (True, False):
        _, _, RG, problems = c10_reactions.read_rule(its_to_gml(rc, core=True, reindex=reindex))
        if problems or not _lab_iso(RG, A):
            return False
    return True


KNOWN_PREDICATES = {"full_its_context_leak": full_its_context_leak}


# ====================================================================== generators
_KEYS = st.lists(st.integers(0, 10**6), min_size=4, max_size=24)


def enum_mol(tier):
    for s, src in c10_molecules.population():
        yield {"smiles": s, "src": src, "perm": None, "maps": [3, 1, 4, 1, 5, 9, 2, 6]}


def strat_mol(tier):
    pop = c10_molecules.population()
    return st.builds(
        lambda i, perm, maps: {"smiles": pop[i][0], "src": pop[i][1], "perm": perm, "maps": maps},
        st.integers(0, len(pop) - 1), _KEYS, _KEYS,
    )


def enum_rxn(tier):
    for r, src, _style in c10_reactions.population():
        yield {"rsmi": r, "src": src, "spec": None}


def strat_rxn(tier):
    pop = c10_reactions.population()
    spec = chem_gen.variant_spec_strategy(maps=True, atoms=True, frags=True, reverse=False).filter(
        lambda sp: sp["maps"] or sp["atoms"] or sp["frags"]
    )
    return st.builds(lambda i, sp: {"rsmi": pop[i][0], "src": pop[i][1], "spec": sp}, st.integers(0, len(pop) - 1), spec)


SUBS = [
    Sub("mol_all", body_mol, enum=enum_mol, exhaustive=True, shards={"quick": 8, "thorough": 16},
        doc="every population molecule as written: graph content vs RDKit, graph_to_smi(smiles_to_graph(s)) == canonical, mapped writing"),
    Sub("mol_rewritten", body_mol, strategy=strat_mol, examples={"quick": 4000, "thorough": 24000},
        shards={"quick": 8, "thorough": 16}, doc="same under generated atom re-orderings and atom-map numberings"),
    Sub("hyd_all", body_hyd, enum=enum_mol, exhaustive=True, shards={"quick": 8, "thorough": 16},
        doc="h_to_explicit structure / molecule / H total; h_to_implicit restores; implicit direction; implicit_hydrogen"),
    Sub("hyd_rewritten", body_hyd, strategy=strat_mol, examples={"quick": 3000, "thorough": 16000},
        shards={"quick": 8, "thorough": 16}),
    Sub("gml_all", body_gml, enum=enum_rxn, exhaustive=True, shards={"quick": 8, "thorough": 16},
        doc="centre and full ITS: export (own reader), import (GMLToNX vs own reader), round trip; smart_to_gml route"),
    Sub("gml_rewritten", body_gml, strategy=strat_rxn, examples={"quick": 1500, "thorough": 8000},
        shards={"quick": 8, "thorough": 16}, doc="same under renumbering / re-ordering / fragment shuffle + rule equivalence across writings"),
    Sub("gml_full_core_all", body_gml_full_core, enum=enum_rxn, exhaustive=True, shards={"quick": 8, "thorough": 16},
        doc="its_to_gml(full ITS, core=True) is the centre's rule"),
    Sub("gml_full_core_rewritten", body_gml_full_core, strategy=strat_rxn, examples={"quick": 1000, "thorough": 6000},
        shards={"quick": 8, "thorough": 16}),
]
