"""C04 - applying a reaction's own template regenerates it, forwards and backwards."""
from __future__ import annotations

import hashlib

import networkx as nx
from hypothesis import strategies as st

from vlib import chem_gen as cg
from vlib import rx_apply as rx
from vlib.runner import Sub, Violation

PROPERTY = "C04"
RULE = (
    "case = (corpus reaction, representation change [atom-map renumbering / atom re-ordering incl. ring-closure "
    "digits / fragment shuffle], template kind centre|full ITS, direction, strategy all|comp|bt); the template is "
    "extracted from the rewritten reaction and applied to its unmapped reactants (products when backwards) in the "
    "reactor mode that matches the reaction's hydrogen style. Preconditions decided from the input: style not "
    "mixed; centre templates only when nothing changes outside the centre; 'comp' only when the substrate has "
    "no more components than the pattern. Oracle: own RDKit unmapped key of the input is among the keys of "
    "smarts_list. Exhaustive over the corpus for the identity representation. Non-trivial = centre with >= 2 "
    "changed bonds and >= 2 matches; distinct by (reaction, variant, configuration)."
)


SLOW_KNOWN = rx.SLOW_KNOWN_TEMPLATES  # reaction id of the recorded H2 reductive-amination finding


def eligible():
    return [i for i, (_, _, style) in enumerate(cg.corpus()) if style != "mixed"]


def reaction_id(rsmi):
    return hashlib.blake2b(repr(cg.rxn_key(rsmi)).encode(), digest_size=8).hexdigest()


def body(case, rec):
    rsmi0, src, style = cg.corpus()[case["rxn"]]
    kind, invert, strategy = case["kind"], case["invert"], case["strategy"]
    facts = rx.reaction_facts(rsmi0)
    if kind == "rc" and facts["outside_change"]:
        rec.label("skip:change-outside-centre")
        return
    if kind == "its" and invert and reaction_id(rsmi0) in SLOW_KNOWN:
        # cost exclusion (see rx_apply.SLOW_KNOWN_TEMPLATES): 20 736 equivalent outputs, about two minutes per
        # application; counted in the class histogram, the centre template of the same reaction stays in the search.
        rec.label("excluded:slow-h2-full-its-backward")
        return
    rsmi = cg.variant(rsmi0, case.get("spec") or {})
    r, p = rsmi.split(">>")
    if case.get("frag_order"):
        # explicit fragment order of the substrate side (exhaustive fragment-order sweep)
        side = (p if invert else r).split(".")
        side = ".".join(side[k] for k in case["frag_order"])
        r, p = (r, side) if invert else (side, p)
        rsmi = f"{r}>>{p}"
        assert cg.rxn_key(rsmi) == cg.rxn_key(rsmi0)
    # the substrate string follows the writing of the (rewritten) reaction: atom order and fragment order are kept
    rewritten = bool(case.get("frag_order")) or bool(case.get("as_written")) or any((case.get("spec") or {}).get(k) for k in ("atoms", "frags"))
    substrate = cg.unmapped(p if invert else r, canonical=not rewritten)
    tpl = rx.template_graph(rsmi, kind)
    reactor = rx.make_reactor(substrate, tpl, invert, strategy, style)
    if strategy == "comp":
        # documented strict_cc_count: the component-aware strategy refuses hosts with more components than the pattern
        pat = reactor.rule.left.raw
        from synkit.Graph.Hyrogen._misc import h_to_implicit, has_XH

        if has_XH(pat):
            pat = h_to_implicit(pat)
        if nx.number_connected_components(reactor.graph.raw) > nx.number_connected_components(pat):
            rec.label("skip:comp-more-host-components")
            return
    out = reactor.smarts_list
    want = cg.rxn_key(rsmi)
    keys = rx.key_set(out)
    nmatch = len(reactor.mappings)
    rec.nt(facts["n_changed"] >= 2 and nmatch >= 2)
    rec.label(f"style={style}", f"kind={kind}", "backward" if invert else "forward", f"strategy={strategy}")
    if case.get("spec") and any(case["spec"].get(k) for k in ("maps", "atoms", "frags")):
        rec.label("rewritten")
    rec.show(dict(reaction=rsmi[:200], kind=kind, invert=invert, strategy=strategy, style=style, matches=nmatch, outputs=len(out)))
    if want not in keys:
        # the documented threshold guard empties the MATCH list; only then is the (expensive) reference count needed
        if nmatch == 0 and rx.embedding_count_exceeds(_pattern(reactor), reactor.graph.raw, 5000):
            rec.label("skip:above-embedding-threshold")
            return
        # attribution: does gluing every raw SubgraphSearchEngine match recover the reaction?
        rawr, _, raw = rx.raw_reactor(substrate, rx.template_graph(rsmi, kind), invert, strategy, style)
        if want in rx.key_set(rawr.smarts_list):
            raise Violation(
                "own-template-miss:pruning",
                f"corpus[{case['rxn']}] ({src}, {style}) {kind} {'backward' if invert else 'forward'} {strategy}: the reaction is produced by one of the "
                f"{len(raw)} raw matches but lost when they are pruned to {nmatch}; id={reaction_id(rsmi0)}",
            )
        raise Violation(
            "own-template-miss",
            f"corpus[{case['rxn']}] ({src}, {style}) {kind} {'backward' if invert else 'forward'} {strategy}: "
            f"{nmatch} matches, {len(out)} outputs, none equals the reaction; id={reaction_id(rsmi0)}",
        )


def _pattern(reactor):
    from synkit.Graph.Hyrogen._misc import h_to_implicit, has_XH

    pat = reactor.rule.left.raw
    return h_to_implicit(pat) if has_XH(pat) else pat


# ------------------------------------------------------------------ known finding: one specific input
def specific_reaction_backward(case, v, m):
    rsmi0 = cg.corpus()[case["rxn"]][0]
    return bool(case["invert"]) and reaction_id(rsmi0) == m.get("reaction_id")


KNOWN_PREDICATES = {"specific_reaction_backward": specific_reaction_backward}


# ------------------------------------------------------------------ generators
def enum_corpus(tier):
    strategies = ["all"] if tier == "quick" else ["all", "comp", "bt"]
    for i in eligible():
        for kind in ("its", "rc"):
            for invert in (False, True):
                for s in strategies:
                    yield dict(rxn=i, spec={}, kind=kind, invert=invert, strategy=s)
    # the same sweep with the substrate spelled as the corpus writes it (atom and fragment order of the file, not
    # RDKit's canonical order) and the component-aware fallback strategy
    for i in eligible():
        for kind in (("rc",) if tier == "quick" else ("rc", "its")):
            for invert in (False, True):
                for s in (("bt",) if tier == "quick" else ("bt", "comp", "all")):
                    yield dict(rxn=i, spec={}, kind=kind, invert=invert, strategy=s, as_written=True)


def enum_fragment_orders(tier):
    """Every order of the substrate side's fragments for reactions with >= 3 fragments there (all 6 / 24 orders for
    3 / 4 fragments, 24 evenly spaced ones beyond), centre template, component-aware strategies."""
    import itertools

    for i in eligible():
        rsmi = cg.corpus()[i][0]
        r, p = rsmi.split(">>")
        for invert in (False, True):
            n = (p if invert else r).count(".") + 1
            if n < 3:
                continue
            perms = list(itertools.permutations(range(n))) if n <= 4 else None
            if perms is None:
                allp = itertools.permutations(range(n))
                step = max(1, __import__("math").factorial(n) // 24)
                perms = [q for k, q in enumerate(allp) if k % step == 0][:24]
            for q in perms:
                for s in (("comp",) if tier == "quick" else ("comp", "bt", "all")):
                    yield dict(rxn=i, spec={}, kind="rc", invert=invert, strategy=s, frag_order=list(q))


def strat(tier):
    return st.fixed_dictionaries(
        dict(
            rxn=st.sampled_from(eligible()),
            spec=cg.variant_spec_strategy(),
            kind=st.sampled_from(["its", "rc"]),
            invert=st.booleans(),
            strategy=st.sampled_from(rx.STRATEGIES),
        )
    )


SUBS = [
    Sub("corpus_identity", body, enum=enum_corpus, exhaustive=True, shards={"quick": 16, "thorough": 16},
        doc="every eligible corpus reaction x {centre, full ITS} x {forward, backward} (x 3 strategies in thorough)"),
    Sub("fragment_orders", body, enum=enum_fragment_orders, exhaustive=True, shards={"quick": 16, "thorough": 16},
        doc="all fragment orders of substrate sides with >= 3 fragments, centre template, comp (quick) / comp, bt, all (thorough)"),
    Sub("variants", body, strategy=strat, examples={"quick": 6000, "thorough": 60000}, shards={"quick": 16, "thorough": 16},
        doc="Hypothesis: corpus reaction under generated renumbering / atom re-ordering / fragment shuffle, all configurations"),
]
