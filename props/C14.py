"""C14 - batching, parallelism and caching are operational only: results never change."""
from __future__ import annotations

import builtins
import gc
import weakref

from hypothesis import strategies as st

from props.C03 import centre_classes, eligible
from vlib import chem_gen as cg
from vlib import rx_apply as rx
from vlib.runner import Sub, Violation

PROPERTY = "C14"
RULE = (
    "batches of 2-8 substrates drawn from the corpus' reactant sides with repeats and look-alikes (own substrate, "
    "same-centre-class substrates), 1-3 centre templates of one hydrogen style, generated order; cache on/off, "
    "cache sizes 1/2/32768, entry/rule worker counts 1-4. Oracle (differential): per entry, BatchReactor.fit == "
    "order-preserving de-duplication of SynReactor on that entry alone for each rule. Second sub-check: the same "
    "with `id` in batch_reactor's globals replaced by a legal adversarial implementation that hands the id of a "
    "dead object to a new one when a generated boolean says so. Further sub-checks: parallel vs serial "
    "validate_smiles / dicts_balance_check, parallel vs serial SynCRN.build, batched vs one-shot clustering. "
    "Non-trivial = batch with >= 2 different substrates that give non-empty, different outputs; distinct by case."
)
ASSUMPTIONS = [
    "OS scheduling of joblib/ProcessPool workers is not controlled: equality is shown for the worker counts tried",
    "id() is only required to be unique among simultaneously alive objects (CPython data model); the adversarial id respects that",
]


def _dedupe(xs):
    seen, out = set(), []
    for x in xs:
        if x not in seen:
            seen.add(x)
            out.append(x)
    return out


# look-alike substrates: same atom order and skeleton, different protonation state / charge
EDITS = [("[O-]", "O"), ("[NH3+]", "N"), ("[NH2+]", "N"), ("[NH+]", "N"), ("C(=O)O)", "C(=O)[O-])"), ("[S-]", "S"), ("[N+]", "N"), ("[n+]", "n")]


def _lookalike(smiles, e):
    """First occurrence of a textual protonation edit, kept only if the result still sanitises."""
    if e is None:
        return smiles
    old, new = EDITS[e % len(EDITS)]
    if old not in smiles:
        return smiles
    out = smiles.replace(old, new, 1)
    try:
        ok = cg.parse(out) is not None
    except Exception:
        ok = False
    return out if ok else smiles


def _batch_inputs(case):
    style = case["style"]
    idxs = case["templates"]
    rules = [rx.template_graph(cg.corpus()[i][0], "rc") for i in idxs]
    subs = []
    for ent in case["entries"]:
        j, e = ent if isinstance(ent, list) else (ent, None)
        r, p = cg.corpus()[j][0].split(">>")
        subs.append(_lookalike(cg.unmapped(p if case["invert"] else r), e))
    return style, rules, subs


def _solo(sub, rules, invert, style, strategy):
    from synkit.IO.chem_converter import smiles_to_graph
    from synkit.Synthesis.Reactor.syn_reactor import SynReactor

    out = []
    for rule in rules:
        g = smiles_to_graph(sub, drop_non_aam=False, use_index_as_atom_map=False)
        try:
            rr = SynReactor(substrate=g, template=rule, invert=invert, strategy=strategy, **rx.mode_for(style))
            out.extend(rr.smarts_list)
        except Exception:  # the batch wrapper documents "reactor failed -> no output for that rule"
            pass
    return _dedupe(out)


def _compare(case, rec, got, style, rules, subs, tag):
    key = "syn_bw" if case["invert"] else "syn_fw"
    if len(got) != len(subs):
        raise Violation(f"{tag}:length", f"{len(got)} results for {len(subs)} entries")
    refs = {}
    nonempty = set()
    for k, (sub, res) in enumerate(zip(subs, got)):
        if sub not in refs:
            refs[sub] = _solo(sub, [rx.template_graph(cg.corpus()[i][0], "rc") for i in case["templates"]], case["invert"], style, case["strategy"])
        ref = refs[sub]
        if ref:
            nonempty.add(tuple(ref))
        if list(res.get(key, [])) != ref or res.get("count") != len(ref):
            same_set = set(res.get(key, [])) == set(ref)
            raise Violation(
                f"{tag}:entry-differs",
                f"entry {k} ({sub[:80]}): batch gives {len(res.get(key, []))} results, alone {len(ref)} "
                f"({'same set, different order' if same_set else 'different set'}); config {dict((k2, case[k2]) for k2 in ('cache', 'cache_max', 'entry_jobs', 'rule_jobs', 'strategy', 'invert'))}",
            )
    rec.nt(len(nonempty) >= 2)
    rec.label(f"rules={len(case['templates'])}", "has-lookalike-pair" if _has_lookalike(subs) else "no-lookalike-pair", f"distinct_nonempty={min(len(nonempty), 3)}", f"cache={case['cache']}", f"jobs={case['entry_jobs']}x{case['rule_jobs']}")


def _has_lookalike(subs):
    import re

    strip = lambda x: re.sub(r"[\[\]+\-H0-9]", "", x).lower()  # noqa: E731
    seen = {}
    for x in subs:
        k = strip(x)
        if k in seen and seen[k] != x:
            return True
        seen.setdefault(k, x)
    return False


def body_batch(case, rec):
    from synkit.Synthesis.Reactor.batch_reactor import BatchReactor

    style, rules, subs = _batch_inputs(case)
    data = [{"smi": s} for s in subs] if case.get("as_dict") else list(subs)
    def run(entry_jobs, rule_jobs):
        return BatchReactor(
            data,
            host_key="smi" if case.get("as_dict") else None,
            strategy=case["strategy"],
            pre_filter_engine=case.get("prefilter"),
            cache_enabled=case["cache"],
            cache_maxsize=case["cache_max"],
            entry_n_jobs=entry_jobs,
            rule_n_jobs=rule_jobs,
            parallel_rules=rule_jobs > 1,
            enable_logging=True,
            **rx.mode_for(style),
        ).fit([r.copy() for r in rules], invert=case["invert"])

    if case.get("prefilter"):
        # a pre-filter engine may reject an input with an exception of its own (turbo: "min() iterable argument is
        # empty" on some substrate/rule pairs); that is not this property's business as long as the parallel run and
        # the serial run of the same configuration behave alike
        outcome = []
        for ej, rj in ((case["entry_jobs"], case["rule_jobs"]), (1, 1)):
            try:
                outcome.append(("ok", run(ej, rj)))
            except Exception as exc:  # noqa: BLE001
                outcome.append(("raised", type(exc).__name__))
        if outcome[0][0] == "raised" or outcome[1][0] == "raised":
            rec.label(f"prefilter={case['prefilter']}:raises")
            if outcome[0][0] != outcome[1][0]:
                raise Violation("batch:parallel-vs-serial", f"pre_filter_engine={case['prefilter']}: parallel run {outcome[0][0]} ({outcome[0][1] if outcome[0][0] == 'raised' else 'results'}), serial run {outcome[1][0]}")
            return
        got, serial_ref = outcome[0][1], outcome[1][1]
    else:
        got = run(case["entry_jobs"], case["rule_jobs"])
    rec.show(dict(entries=[s[:60] for s in subs], templates=case["templates"], config={k: case.get(k) for k in ("cache", "cache_max", "entry_jobs", "rule_jobs", "strategy", "invert", "prefilter")}))
    if case.get("prefilter"):
        # with a rule pre-filter the reference is the SAME configuration run serially: the number of workers must
        # not matter (whether the filter itself keeps every applicable rule is not part of this property)
        serial = serial_ref
        rec.label(f"prefilter={case['prefilter']}")
        key = "syn_bw" if case["invert"] else "syn_fw"
        rec.nt(len({tuple(r.get(key, [])) for r in serial if r.get(key)}) >= 2)
        if got != serial:
            bad = next((k for k, (a, b) in enumerate(zip(got, serial)) if a != b), None)
            raise Violation(
                "batch:parallel-vs-serial",
                f"pre_filter_engine={case['prefilter']} invert={case['invert']} entry_jobs={case['entry_jobs']} rule_jobs={case['rule_jobs']}: "
                f"entry {bad} ({subs[bad][:60] if bad is not None else '?'}) differs from the serial run of the same configuration "
                f"({len(got[bad].get(key, [])) if bad is not None else '?'} vs {len(serial[bad].get(key, [])) if bad is not None else '?'} results)",
            )
        return
    _compare(case, rec, got, style, rules, subs, "batch")


# ------------------------------------------------------------------ adversarial identity model
class AdversarialId:
    """A legal id(): unique among objects alive at the same time.  A new object receives either a fresh number
    or - when the generated choice says so - the number of an object that has already died."""

    def __init__(self, choices):
        self.choices = list(choices)
        self.k = 0
        self.live = {}  # real id -> fake id (while alive)
        self.dead = []
        self.next = 10**9
        self.reused = 0

    def __call__(self, obj):
        real = builtins.id(obj)
        if real in self.live:
            return self.live[real]
        gc.collect()  # finalise everything that is already unreachable: makes "dead" independent of GC timing
        take = bool(self.choices[self.k % len(self.choices)]) if self.choices else False
        self.k += 1
        if take and self.dead:
            fake = self.dead.pop(0)
            self.reused += 1
        else:
            fake = self.next
            self.next += 1
        try:
            weakref.finalize(obj, self._died, real, fake)
        except TypeError:
            return real  # not weak-referenceable: leave it alone
        self.live[real] = fake
        return fake

    def _died(self, real, fake):
        self.live.pop(real, None)
        self.dead.append(fake)


def body_adversarial_id(case, rec):
    import synkit.Synthesis.Reactor.batch_reactor as mod
    from synkit.Synthesis.Reactor.batch_reactor import BatchReactor

    style, rules, subs = _batch_inputs(case)
    gc.collect()
    adv = AdversarialId(case["reuse"])
    had = "id" in vars(mod)
    old = vars(mod).get("id")
    mod.id = adv
    try:
        br = BatchReactor(list(subs), strategy=case["strategy"], cache_enabled=True, cache_maxsize=case["cache_max"], **rx.mode_for(style))
        got = br.fit(rules, invert=case["invert"])
    finally:
        if had:
            mod.id = old
        else:
            del mod.id
    rec.show(dict(entries=[s[:60] for s in subs], templates=case["templates"], ids_reused=adv.reused))
    case = dict(case, cache=True, entry_jobs=1, rule_jobs=1)
    _compare(case, rec, got, style, rules, subs, "adversarial-id")
    rec.label("ids-reused" if adv.reused else "no-reuse")
    if not adv.reused:
        rec.nontrivial = False


# ------------------------------------------------------------------ parallel vs serial: validation / balance
def body_parallel_validation(case, rec):
    from synkit.Chem.Reaction.aam_validator import AAMValidator
    from synkit.Chem.Reaction.balance_check import BalanceReactionCheck

    rows = []
    for i, spec, swap in zip(case["rxns"], case["specs"], case["swaps"]):
        rsmi = cg.corpus()[i][0]
        mapped = cg.variant(rsmi, spec)
        if swap:
            # a deliberately different (usually wrong) mapping: renumber the product side only
            a, b = mapped.split(">>")
            b2, _ = cg.renumber_maps(b + ">>" + b, swap)
            mapped = a + ">>" + b2.split(">>")[0]
        rows.append({"gt": rsmi, "m1": mapped, "m2": rsmi, "reactions": rsmi if not swap else mapped})
    ser = AAMValidator.validate_smiles(rows, ground_truth_col="gt", mapped_cols=["m1", "m2"], check_method=case["method"], n_jobs=1)
    par = AAMValidator.validate_smiles(rows, ground_truth_col="gt", mapped_cols=["m1", "m2"], check_method=case["method"], n_jobs=case["jobs"])
    if ser != par:
        raise Violation("validate_smiles-parallel", f"n_jobs=1 {[(r['mapper'], r['results']) for r in ser]} vs n_jobs={case['jobs']} {[(r['mapper'], r['results']) for r in par]}")
    res = ser[0]["results"]
    b1 = BalanceReactionCheck(n_jobs=1).dicts_balance_check(rows, rsmi_column="reactions")
    bp = BalanceReactionCheck(n_jobs=case["jobs"]).dicts_balance_check(rows, rsmi_column="reactions")
    if b1 != bp:
        raise Violation("balance-parallel", f"n_jobs=1 vs n_jobs={case['jobs']} differ")
    rec.nt(len(set(res)) > 1 or (len(b1[0]) > 0 and len(b1[1]) > 0))
    rec.show(dict(n=len(rows), method=case["method"], jobs=case["jobs"], results=res))


# ------------------------------------------------------------------ parallel vs serial: SynCRN
def _graph_fingerprint(g):
    nodes = sorted((repr(n), sorted((k, repr(v)) for k, v in d.items())) for n, d in g.nodes(data=True))
    edges = sorted((repr(u), repr(v), sorted((k, repr(x)) for k, x in d.items())) for u, v, d in g.edges(data=True))
    return nodes, edges


def body_syncrn(case, rec):
    from synkit.CRN.DAG.syncrn import SynCRN

    style = case["style"]
    # SynCRN infers rule arity from the rule text: rules are given as mapped reaction SMILES
    rules = [cg.corpus()[i][0] for i in case["templates"]]
    seeds = []
    for j in case["seeds"]:
        seeds.extend(cg.unmapped(cg.corpus()[j][0].split(">>")[0]).split("."))
    mode = rx.mode_for(style)

    def run(parallel, workers):
        crn = SynCRN(rules=list(rules), repeats=case["repeats"], strategy=case["strategy"], max_components=2, **mode)
        return crn.build(list(seeds), parallel=parallel, max_workers=workers)

    g0 = run(False, None)
    g1 = run(True, case["workers"])
    f0, f1 = _graph_fingerprint(g0), _graph_fingerprint(g1)
    rxn_nodes = sum(1 for _, d in g0.nodes(data=True) if d.get("kind") not in ("species", None)) or (g0.number_of_nodes() - len(set(seeds)))
    rec.nt(g0.number_of_edges() >= 2)
    rec.label(f"edges={'0' if g0.number_of_edges() == 0 else '>0'}")
    rec.show(dict(seeds=seeds[:6], templates=case["templates"], nodes=g0.number_of_nodes(), edges=g0.number_of_edges(), workers=case["workers"]))
    if f0 != f1:
        raise Violation(
            "syncrn-parallel",
            f"serial graph has {g0.number_of_nodes()} nodes/{g0.number_of_edges()} arcs, parallel (workers={case['workers']}) {g1.number_of_nodes()}/{g1.number_of_edges()} or different attributes",
        )


# ------------------------------------------------------------------ the harness owns the schedule
class _FakeParallel:
    """Stand-in for joblib.Parallel: evaluates the delayed calls in a generated order and returns the results in
    submission order (joblib's contract).  Makes 'which task runs first' an ordinary generated choice."""

    order_keys = [0]

    def __init__(self, *a, **k):
        pass

    def __call__(self, tasks):
        tasks = list(tasks)
        order = cg._perm_from_keys(self.order_keys, len(tasks))
        out = [None] * len(tasks)
        for i in order:
            f, a, k = tasks[i]
            out[i] = f(*a, **k)
        return out


class _FakeExecutor:
    """Stand-in for ProcessPoolExecutor: map() runs the tasks in a generated order, yields results in order."""

    order_keys = [0]

    def __init__(self, max_workers=None, mp_context=None, initializer=None, initargs=(), **k):
        # a pool initialiser runs once per worker; here there is one (in-process) worker
        if initializer is not None:
            initializer(*initargs)

    def __enter__(self):
        return self

    def __exit__(self, *exc):
        return False

    def map(self, fn, tasks, **kw):
        tasks = list(tasks)
        order = cg._perm_from_keys(self.order_keys, len(tasks))
        out = [None] * len(tasks)
        for i in order:
            out[i] = fn(tasks[i])
        return iter(out)


def body_schedule_batch(case, rec):
    """BatchReactor with entry- and rule-level dispatch replaced by an executor whose execution order is generated."""
    import synkit.Synthesis.Reactor.batch_reactor as mod
    from synkit.Synthesis.Reactor.batch_reactor import BatchReactor

    style, rules, subs = _batch_inputs(case)
    _FakeParallel.order_keys = case["order"]
    old = mod.Parallel
    mod.Parallel = _FakeParallel
    try:
        br = BatchReactor(
            list(subs), strategy=case["strategy"], cache_enabled=case["cache"], cache_maxsize=case["cache_max"],
            entry_n_jobs=case["entry_jobs"], rule_n_jobs=case["rule_jobs"], parallel_rules=case["rule_jobs"] > 1,
            allow_nested=True, **rx.mode_for(style),
        )
        got = br.fit(rules, invert=case["invert"])
    finally:
        mod.Parallel = old
    rec.show(dict(entries=[s[:60] for s in subs], templates=case["templates"], order=case["order"][:6], jobs=[case["entry_jobs"], case["rule_jobs"]]))
    _compare(case, rec, got, style, rules, subs, "schedule")


def body_schedule_syncrn(case, rec):
    """SynCRN.build(parallel=True) with the process pool replaced by an executor whose execution order is generated."""
    import synkit.CRN.DAG.syncrn as mod
    from synkit.CRN.DAG.syncrn import SynCRN

    style = case["style"]
    rules = [cg.corpus()[i][0] for i in case["templates"]]
    seeds = []
    for j in case["seeds"]:
        seeds.extend(cg.unmapped(cg.corpus()[j][0].split(">>")[0]).split("."))
    mode = rx.mode_for(style)

    def run(parallel):
        crn = SynCRN(rules=list(rules), repeats=case["repeats"], strategy=case["strategy"], max_components=2, **mode)
        return crn.build(list(seeds), parallel=parallel, max_workers=case["workers"])

    g0 = run(False)
    _FakeExecutor.order_keys = case["order"]
    old = mod.ProcessPoolExecutor
    mod.ProcessPoolExecutor = _FakeExecutor
    try:
        g1 = run(True)
    finally:
        mod.ProcessPoolExecutor = old
    rec.nt(g0.number_of_edges() >= 2)
    rec.show(dict(seeds=seeds[:6], templates=case["templates"], nodes=g0.number_of_nodes(), edges=g0.number_of_edges(), order=case["order"][:6]))
    if _graph_fingerprint(g0) != _graph_fingerprint(g1):
        raise Violation("schedule:syncrn", f"serial graph {g0.number_of_nodes()}/{g0.number_of_edges()} vs generated execution order {case['order'][:8]}: {g1.number_of_nodes()}/{g1.number_of_edges()} or different attributes")


def strat_schedule_batch(tier):
    keys = st.lists(st.integers(0, 10**6), min_size=2, max_size=16)
    return st.builds(lambda c, o: dict(c, order=o), batch_cases(parallel=True).map(lambda c: dict(c, prefilter=None)), keys)


def strat_schedule_syncrn(tier):
    keys = st.lists(st.integers(0, 10**6), min_size=2, max_size=16)
    return st.builds(lambda c, o: dict(c, order=o), strat_syncrn(tier), keys)


# ------------------------------------------------------------------ batched vs one-shot clustering
def body_cluster(case, rec):
    from synkit.Graph.Matcher.batch_cluster import BatchCluster
    from synkit.Graph.Matcher.graph_cluster import GraphCluster

    data = []
    for k, i in enumerate(case["items"]):
        rsmi = cg.corpus()[i][0]
        if case["renumber"][k % len(case["renumber"])]:
            rsmi = cg.variant(rsmi, dict(maps=case["renumber"][k % len(case["renumber"])]))
        data.append({"id": k, "src": i, "RC": rx.template_graph(rsmi, "rc")})
    one = GraphCluster().fit([dict(d) for d in data], "RC", attribute_key=None)
    part_one = _partition([d["class"] for d in one])
    bc = BatchCluster()
    res = bc.fit([dict(d) for d in data], None, rule_key="RC", attribute_key=None, batch_size=case["batch"])
    items = res[0] if isinstance(res, tuple) else res
    part_b = _partition([d["class"] for d in items])
    rec.nt(len(part_one) >= 2 and any(len(c) >= 2 for c in part_one))
    rec.label(f"classes={min(len(part_one), 5)}", f"batch={case['batch']}")
    rec.show(dict(items=case["items"], batch=case["batch"], classes=len(part_one)))
    if part_one != part_b:
        raise Violation("batch-vs-oneshot-clustering", f"one-shot {sorted(map(sorted, part_one))} vs batch_size={case['batch']} {sorted(map(sorted, part_b))}")


def _partition(labels):
    cl = {}
    for i, c in enumerate(labels):
        cl.setdefault(c, set()).add(i)
    return {frozenset(s) for s in cl.values()}


# ------------------------------------------------------------------ generators
def _style_pools():
    pools = {"explicit": [], "implicit": []}
    for i in eligible():
        rsmi, _, style = cg.corpus()[i]
        if not rx.reaction_facts(rsmi)["outside_change"]:
            pools[style].append(i)
    return pools


@st.composite
def batch_cases(draw, parallel=False, adversarial=False):
    pools = _style_pools()
    style = draw(st.sampled_from(["explicit", "implicit"]))
    pool = pools[style]
    cls = centre_classes()
    # rule-parallel dispatch is only interesting with more rules than workers (chunking, uneven remainders)
    nt = draw(st.integers(1, 3)) if not parallel else draw(st.sampled_from([1, 2, 3, 5, 7, 8, 9]))
    templates = draw(st.lists(st.sampled_from(pool), min_size=nt, max_size=nt, unique=True))
    # entries: own substrates of the templates, class mates (look-alikes), and arbitrary same-style substrates, with repeats
    cand = list(templates)
    for t in templates:
        cand += [j for j in cls.get(t, []) if j in pool][:6]
    n = draw(st.integers(2, 8)) if nt <= 3 else draw(st.integers(2, 3))
    invert = draw(st.booleans())

    def applicable(j):
        r, p = cg.corpus()[j][0].split(">>")
        base = cg.unmapped(p if invert else r)
        return [e for e in range(len(EDITS)) if _lookalike(base, e) != base]

    entries = []
    for _ in range(n):
        j = draw(st.one_of(st.sampled_from(cand), st.sampled_from(cand), st.sampled_from(pool)))
        app = applicable(j)
        if app and draw(st.booleans()):
            # a protonation-state look-alike, usually next to its parent
            if draw(st.booleans()):
                entries.append([j, None])
            entries.append([j, draw(st.sampled_from(app))])
        else:
            entries.append([j, None])
    entries = entries[:8]
    case = dict(
        style=style,
        templates=templates,
        entries=entries,
        invert=invert,
        strategy=draw(st.sampled_from(["bt", "all", "comp"])),
        cache_max=draw(st.sampled_from([1, 2, 32768])),
    )
    if adversarial:
        case["reuse"] = draw(st.lists(st.booleans(), min_size=4, max_size=24))
        return case
    case["cache"] = draw(st.booleans())
    case["as_dict"] = draw(st.booleans())
    if parallel:
        case["prefilter"] = draw(st.sampled_from([None, None, "nx", "turbo", "sing"]))
        if case["prefilter"]:
            # larger batches: chunked dispatch only differs from per-entry dispatch beyond 2 x workers entries
            extra = draw(st.lists(st.sampled_from(cand), min_size=0, max_size=8))
            case["entries"] = (case["entries"] + [[j, None] for j in extra])[:12]
        case["rule_jobs"] = draw(st.sampled_from([1, 2, 3, 4]))
        # rule-level parallelism is only active with a serial entry loop (allow_nested is False)
        case["entry_jobs"] = 1 if case["rule_jobs"] > 1 and draw(st.booleans()) else draw(st.sampled_from([1, 2, 4]))
    else:
        case["entry_jobs"] = 1
        case["rule_jobs"] = 1
    return case


def strat_batch(tier):
    return batch_cases()


def strat_batch_parallel(tier):
    return batch_cases(parallel=True).filter(lambda c: c["entry_jobs"] > 1 or c["rule_jobs"] > 1)


def strat_adv(tier):
    return batch_cases(adversarial=True)


def strat_validation(tier):
    el = eligible()
    keys = st.lists(st.integers(0, 10**6), min_size=4, max_size=16)
    return st.integers(2, 8).flatmap(
        lambda n: st.fixed_dictionaries(
            dict(
                rxns=st.lists(st.sampled_from(el), min_size=n, max_size=n),
                specs=st.lists(cg.variant_spec_strategy(frags=False), min_size=n, max_size=n),
                swaps=st.lists(st.one_of(st.none(), keys), min_size=n, max_size=n),
                method=st.sampled_from(["RC", "ITS"]),
                jobs=st.sampled_from([2, 4]),
            )
        )
    )


def strat_syncrn(tier):
    pools = _style_pools()

    def mk(style):
        pool = pools[style]
        return st.fixed_dictionaries(
            dict(
                style=st.just(style),
                templates=st.lists(st.sampled_from(pool), min_size=1, max_size=3),  # repeats allowed
                extra=st.lists(st.sampled_from(pool), min_size=0, max_size=1),
                repeats=st.integers(1, 2),
                strategy=st.sampled_from([None, "bt", "all"]),
                workers=st.sampled_from([2, 3, 4, 8]),
            )
        ).map(lambda d: dict(d, seeds=list(d["templates"]) + d["extra"]))

    return st.one_of(mk("implicit"), mk("implicit"), mk("explicit"))


def strat_cluster(tier):
    el = eligible()
    keys = st.lists(st.integers(0, 10**6), min_size=4, max_size=16)
    return st.integers(3, 12).flatmap(
        lambda n: st.fixed_dictionaries(
            dict(
                items=st.lists(st.sampled_from(el[:60]), min_size=n, max_size=n),
                renumber=st.lists(st.one_of(st.none(), keys), min_size=1, max_size=4),
                batch=st.integers(1, n + 1),
            )
        )
    )


SUBS = [
    Sub("batch_vs_solo", body_batch, strategy=strat_batch, examples={"quick": 320, "thorough": 6000}, shards={"quick": 16, "thorough": 16}, shrink=False),
    Sub("adversarial_id", body_adversarial_id, strategy=strat_adv, examples={"quick": 320, "thorough": 6000}, shards={"quick": 16, "thorough": 16}, shrink=False),
    Sub("batch_parallel", body_batch, strategy=strat_batch_parallel, examples={"quick": 90, "thorough": 900}, shards={"quick": 3, "thorough": 4}, shrink=False),
    Sub("parallel_validation", body_parallel_validation, strategy=strat_validation, examples={"quick": 48, "thorough": 600}, shards={"quick": 3, "thorough": 4}, shrink=False),
    Sub("syncrn_parallel", body_syncrn, strategy=strat_syncrn, examples={"quick": 30, "thorough": 300}, shards={"quick": 1, "thorough": 1}, shrink=False, serial=True),
    Sub("schedule_batch", body_schedule_batch, strategy=strat_schedule_batch, examples={"quick": 240, "thorough": 4000}, shards={"quick": 16, "thorough": 16}, shrink=False,
        doc="BatchReactor with joblib.Parallel replaced by an executor running tasks in a generated order (results returned in submission order): per-entry results must equal SynReactor alone"),
    Sub("schedule_syncrn", body_schedule_syncrn, strategy=strat_schedule_syncrn, examples={"quick": 160, "thorough": 3000}, shards={"quick": 16, "thorough": 16}, shrink=False,
        doc="SynCRN.build(parallel=True) with ProcessPoolExecutor replaced by an executor running tasks in a generated order vs the serial build"),
    Sub("batch_clustering", body_cluster, strategy=strat_cluster, examples={"quick": 200, "thorough": 4000}, shards={"quick": 4, "thorough": 8}),
]
