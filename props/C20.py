"""C20 - siphons, traps, firing semantics and pathway realizability match their Petri-net definitions."""
from __future__ import annotations

import itertools

from hypothesis import strategies as st

from vlib import crn_gen
from vlib.runner import Sub, Violation

PROPERTY = "C20"
RULE = (
    "siphons/traps: exhaustive over all networks on 3 species with <= 3 unit-coefficient reactions (<= 2 in quick) "
    "and Hypothesis networks up to 6 species, every non-empty species subset tested against the textbook "
    "predicate; firing: generated markings vs pre/post arithmetic; realizability: generated networks with "
    "sources/sinks and integer flows (balanced kernel vectors and arbitrary small flows) with prod(f_e+1) <= 10^4, "
    "decided exactly by a memoised search over fired-count vectors. Non-trivial = network with a minimal siphon "
    "of size >= 2 / balanced flow with >= 2 distinct transitions one of which is disabled initially; distinct by "
    "reaction list (+ flow)."
)


# ---------------------------------------------------------------- siphons / traps
def minimal_sets(sets):
    out = []
    for s in sorted(sets, key=len):
        if not any(t <= s for t in out):
            out.append(s)
    return out


def ref_siphons_traps(case):
    rx = case["rx"]
    species = sorted({s for r, p, _ in rx for s in list(r) + list(p)})
    siph, trap = [], []
    for k in range(1, len(species) + 1):
        for combo in itertools.combinations(species, k):
            S = set(combo)
            if all((not (S & set(p))) or (S & set(r)) for r, p, _ in rx):
                siph.append(frozenset(S))
            if all((not (S & set(r))) or (S & set(p)) for r, p, _ in rx):
                trap.append(frozenset(S))
    return species, minimal_sets(siph), minimal_sets(trap)


def body_structure(case, rec, H=None):
    from synkit.CRN.Petri.structure import find_siphons, find_traps

    H = crn_gen.build(case) if H is None else H
    species, siph, trap = ref_siphons_traps(case)
    rec.nt(any(len(s) >= 2 for s in siph))
    rec.label(f"n_siphons={min(len(siph), 4)}", f"n_traps={min(len(trap), 4)}")
    rec.show(dict(reactions=crn_gen.rx_str(case), siphons=[sorted(s) for s in siph], traps=[sorted(s) for s in trap]))
    got_s = find_siphons(H)
    got_t = find_traps(H)
    for name, got, ref in (("siphons", got_s, siph), ("traps", got_t, trap)):
        gs = [frozenset(x) for x in got]
        if len(gs) != len(set(gs)):
            raise Violation(name, f"{crn_gen.rx_str(case)}: duplicates in {got}")
        if set(gs) != set(ref):
            raise Violation(name, f"{crn_gen.rx_str(case)}: reported {sorted(map(sorted, gs))}, definition gives {sorted(map(sorted, ref))}")
    # max_size only truncates
    k = case.get("max_size")
    if k:
        gk = {frozenset(x) for x in find_siphons(H, max_size=k)}
        if gk != {s for s in siph if len(s) <= k}:
            raise Violation("siphons-max_size", f"{crn_gen.rx_str(case)}: max_size={k} gives {sorted(map(sorted, gk))}")
        tk = {frozenset(x) for x in find_traps(H, max_size=k)}
        if tk != {s for s in trap if len(s) <= k}:
            raise Violation("traps-max_size", f"{crn_gen.rx_str(case)}: max_size={k} gives {sorted(map(sorted, tk))}")
    # the documented alternative input (bipartite graph) must agree
    from synkit.CRN.Hypergraph.conversion import hypergraph_to_bipartite

    G = hypergraph_to_bipartite(H)
    # the arcs carry their meaning in the 'role' attribute (as build_S documents), so the same role-labelled graph
    # with every arc reversed is the same network (an undirected copy is NOT: it merges the two arcs of a catalyst)
    for how, Gx in (("as exported", G), ("arcs reversed", G.reverse(copy=True))):
        if {frozenset(x) for x in find_siphons(Gx)} != set(siph) or {frozenset(x) for x in find_traps(Gx)} != set(trap):
            raise Violation("bipartite-input", f"{crn_gen.rx_str(case)}: bipartite-graph input ({how}) gives different siphons/traps")


def body_structure_after_edit(case, rec):
    """Siphons/traps of a network object that was analysed before and then edited in place."""
    from synkit.CRN.Petri.structure import find_siphons, find_traps

    H, final, preserved = crn_gen.build_edited(case, lambda h: (find_siphons(h), find_traps(h)))
    body_structure({"rx": final}, rec, H=H)
    rec.label("count-preserving-edit" if preserved else "counts-changed")


# ---------------------------------------------------------------- firing semantics
def body_fire(case, rec):
    from synkit.CRN.Petri.net import PetriNet

    net = PetriNet()
    rx = case["rx"]
    for i, (r, p, _) in enumerate(rx):
        net.add_transition(f"t{i}", dict(r), dict(p))
    marking = dict(case["marking"])
    rec.show(dict(reactions=crn_gen.rx_str(case), marking=marking))
    some_en = some_dis = False
    for i, (r, p, _) in enumerate(rx):
        want = all(marking.get(s, 0) >= w for s, w in r.items())
        some_en |= want
        some_dis |= not want
        if net.enabled(marking, f"t{i}") != want:
            raise Violation("enabled", f"{r}>>{p} in {marking}: enabled={not want}, definition {want}")
        before = dict(marking)
        m2 = net.fire(marking, f"t{i}")
        if marking != before:
            raise Violation("fire-mutates", "fire() changed its input marking")
        places = set(marking) | set(r) | set(p) | set(m2)
        for s in places:
            if m2.get(s, 0) != marking.get(s, 0) - r.get(s, 0) + p.get(s, 0):
                raise Violation("fire", f"{r}>>{p} from {marking} gives {m2}")
        if net.marking_to_tuple(m2) != tuple(m2.get(s, 0) for s in sorted(net._place_index, key=net._place_index.get)):
            raise Violation("marking_to_tuple", "tuple encoding differs from the marking")
    rec.nt(some_en and some_dis)


# ---------------------------------------------------------------- realizability
def balanced_flows(rx, species, fmax=3, budget=10**4):
    m = len(rx)
    out = []
    for f in itertools.product(range(fmax + 1), repeat=m):
        if not any(f):
            continue
        prod = 1
        for x in f:
            prod *= x + 1
        if prod > budget:
            continue
        if all(sum(f[j] * (rx[j][1].get(s, 0) - rx[j][0].get(s, 0)) for j in range(m)) == 0 for s in species):
            out.append(list(f))
    return out


def ref_realizable(rx, species, flow):
    """Exact: search over fired-count vectors; the marking is a function of the counts."""
    m = len(rx)
    delta = [{s: rx[j][1].get(s, 0) - rx[j][0].get(s, 0) for s in species} for j in range(m)]
    start = tuple([0] * m)
    goal = tuple(flow)

    def marking(c):
        return {s: sum(c[j] * delta[j][s] for j in range(m)) for s in species}

    if any(v != 0 for v in marking(goal).values()):
        return False, None
    seen = {start: None}
    stack = [start]
    while stack:
        c = stack.pop()
        if c == goal:
            seq = []
            while seen[c] is not None:
                prev, j = seen[c]
                seq.append(j)
                c = prev
            return True, seq[::-1]
        mk = marking(c)
        for j in range(m):
            if c[j] < flow[j] and all(mk[s] >= w for s, w in rx[j][0].items()):
                c2 = c[:j] + (c[j] + 1,) + c[j + 1 :]
                if c2 not in seen:
                    seen[c2] = (c, j)
                    stack.append(c2)
    return False, None


def body_realizable(case, rec):
    from synkit.CRN.Path.realizability import PathwayRealizability, hypergraph_to_pr_inputs

    rx = case["rx"]
    species = sorted({s for r, p, _ in rx for s in list(r) + list(p)})
    ids = [f"e{i}" for i in range(len(rx))]
    H = crn_gen.build(case, explicit_ids=ids)
    if case["balanced"]:
        flows = balanced_flows(rx, species)
        if not flows:
            rec.label("no-balanced-flow")
            return
        flow = flows[case["pick"] % len(flows)]
    else:
        flow = [x for x in case["flow"][: len(rx)]] + [0] * max(0, len(rx) - len(case["flow"]))
        prod = 1
        for x in flow:
            prod *= x + 1
        if prod > 10**4:
            return
    fmap = {ids[j]: flow[j] for j in range(len(rx))}
    vertices, edges, fm = hypergraph_to_pr_inputs(H, fmap)
    pr = PathwayRealizability().load_hypergraph_and_flow(vertices, edges, fm).build_petri_net_from_flow()
    ok, cert = pr.is_realizable()
    want, ref_seq = ref_realizable(rx, species, flow)
    init_disabled = any(flow[j] > 0 and rx[j][0] for j in range(len(rx)))
    distinct = sum(1 for x in flow if x > 0)
    rec.nt(want and distinct >= 2 and init_disabled)
    rec.label(f"realizable={want}", "balanced" if case["balanced"] else "arbitrary-flow")
    rec.distinct_key([rx, flow])
    rec.show(dict(reactions=crn_gen.rx_str(case), flow=flow, realizable=want, certificate=cert))
    where = f"{crn_gen.rx_str(case)} flow={flow}"
    if bool(ok) != want:
        raise Violation("realizable-verdict", f"{where}: reported {ok}, exhaustive search over orderings says {want} (e.g. {ref_seq})")
    if ok:
        if cert is None:
            raise Violation("certificate", f"{where}: realizable without certificate")
        if pr.certificate != cert:
            raise Violation("certificate", f"{where}: certificate property differs from the returned one")
        count = {i: 0 for i in ids}
        mk = {s: 0 for s in species}
        for t in cert:
            if t not in count:
                raise Violation("certificate", f"{where}: unknown transition {t}")
            j = ids.index(t)
            for s, w in rx[j][0].items():
                mk[s] -= w
            if any(v < 0 for v in mk.values()):
                raise Violation("certificate", f"{where}: certificate {cert} drives a species count negative")
            for s, w in rx[j][1].items():
                mk[s] += w
            count[t] += 1
        if any(count[ids[j]] != flow[j] for j in range(len(rx))):
            raise Violation("certificate", f"{where}: certificate {cert} does not fire each reaction f_e times")
        if any(v != 0 for v in mk.values()):
            raise Violation("certificate", f"{where}: certificate {cert} leaves tokens {mk}")
    elif cert is not None:
        raise Violation("certificate", f"{where}: certificate returned with a negative verdict")


# ---------------------------------------------------------------- generators
def enum_structure(tier):
    k = 2 if tier == "quick" else 3
    for case in crn_gen.enum_networks(["A", "B", "C"], (0, 1), k, allow_empty_side=True):
        yield case


def strat_structure(tier):
    return st.builds(lambda c, k: dict(c, max_size=k), crn_gen.net_strategy(max_species=6, max_rxn=6, max_coef=2), st.sampled_from([None, 1, 2, 3]))


def strat_fire(tier):
    sp = crn_gen.SPECIES[:5]
    return st.builds(
        lambda c, m: dict(c, marking=m),
        crn_gen.net_strategy(max_species=5, max_rxn=4, max_coef=3),
        st.dictionaries(st.sampled_from(sp), st.integers(0, 4), max_size=5),
    )


def strat_real(tier):
    # pathway-like networks: sources and sinks are frequent so balanced flows exist
    sp = crn_gen.SPECIES[:4]
    side = crn_gen.side_strategy(sp, 2, 2, 0)
    rxn = st.tuples(side, side, st.just("r")).filter(lambda t: (t[0] or t[1]) and t[0] != t[1]).map(list)
    nets = st.lists(rxn, min_size=2, max_size=5).map(lambda rx: {"rx": rx})
    chain = st.integers(1, 3).flatmap(
        lambda k: st.tuples(st.just(k), st.integers(1, 2), st.lists(rxn, max_size=2))
    ).map(
        lambda t: {
            "rx": [[{}, {sp[0]: t[1]}, "r"]] + [[{sp[i]: t[1]}, {sp[i + 1]: t[1]}, "r"] for i in range(t[0])] + [[{sp[t[0]]: t[1]}, {}, "r"]] + t[2]
        }
    )
    base = st.one_of(nets, chain, chain)
    return st.one_of(
        st.builds(lambda c, p: dict(c, balanced=True, pick=p), base, st.integers(0, 10**6)),
        st.builds(lambda c, p: dict(c, balanced=True, pick=p), base, st.integers(0, 10**6)),
        st.builds(lambda c, f: dict(c, balanced=False, flow=f), base, st.lists(st.integers(0, 3), min_size=5, max_size=5)),
    )


SUBS = [
    Sub("structure_small", body_structure, enum=enum_structure, exhaustive=True, shards={"quick": 16, "thorough": 16},
        doc="all networks over {A,B,C} with unit coefficients and <= 2 (quick) / <= 3 (thorough) reactions"),
    Sub("structure_random", body_structure, strategy=strat_structure, examples={"quick": 20000, "thorough": 300000}, shards={"quick": 8, "thorough": 16}),
    Sub("structure_after_edit", body_structure_after_edit, strategy=lambda tier: crn_gen.edited_net_strategy(max_species=4, max_rxn=4, max_coef=2), examples={"quick": 4000, "thorough": 60000}, shards={"quick": 8, "thorough": 16},
        doc="siphons/traps of network objects reached by in-place edits after an earlier analysis"),
    Sub("firing", body_fire, strategy=strat_fire, examples={"quick": 12000, "thorough": 200000}, shards={"quick": 4, "thorough": 8}),
    Sub("realizability", body_realizable, strategy=strat_real, examples={"quick": 24000, "thorough": 400000}, shards={"quick": 16, "thorough": 16}),
]
