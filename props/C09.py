"""C09 - reaction normal forms preserve the reaction; equivalence checks are exact.

Sub-checks
  canon_wl / canon_nauty  CanonRSMI: output well formed, same unmapped sides, ITS isomorphic to the input's,
                          fixed point, and (rigid reactants only) independent of map numbers / atom order /
                          fragment order of the input.
  standardize             Standardize.fit: idempotent, equal on every representation variant, same reaction.
  aam_renumber            AAMValidator.smiles_check(variant, original) is True (RC and ITS, both argument orders).
  aam_swap                two same-element centre atoms transposed on the product side: verdict == own isomorphism
                          decision on the labelled centre (RC) / labelled ITS (ITS).
  equivariant_graphs      AAMValidator.check_equivariant_graph on lists of small synthetic ITS-like graphs ==
                          own pairwise isomorphism decision (typesGH node labels, bond order pairs).
  balance                 BalanceReactionCheck.rsmi_balance_check == own element(+H)/charge counter, on corpus
                          reactions and fragment-deleted / fragment-duplicated / one-atom-edited variants.
All oracles are RDKit + vlib only (chem_gen, c09_ref, oracles.iso).
"""
from __future__ import annotations

from hypothesis import strategies as st

from vlib import c09_ref as ref
from vlib import chem_gen as cg
from vlib.runner import Sub, Violation

PROPERTY = "C09"
RULE = (
    "inputs: the 340 well-formed corpus reactions plus 13 vendored small mapped reactions, rewritten by generated "
    "map renumberings / atom re-orderings (non-canonical SMILES) / fragment shuffles (identity on the chemistry, "
    "asserted in the generator). canon_*: two independent rewritings of one reaction per case, back-ends wl "
    "(wl_iterations 3 = default, also 1, 2, 5) and nauty; non-trivial = at least one rewriting renumbers maps or "
    "re-orders atoms; the independence clause is evaluated only when the reactant graph has no non-identity "
    "automorphism (own count on element, aromatic, charge, hcount / order). standardize / aam_renumber: "
    "non-trivial = rewriting that changes maps or atom order. aam_swap: every unordered pair of same-element "
    "centre atoms of every input reaction, transposed on the product side, optionally rewritten; non-trivial = "
    "the unlabelled centre is still isomorphic to the original one. equivariant_graphs: lists of 2-4 graphs with "
    "2-5 nodes (a base graph, relabelled copies, one-edit neighbours, unrelated graphs); non-trivial = some pair "
    "is isomorphic or differs in bond order pairs only. balance: original / fragment deleted / "
    "fragment duplicated / one bracket atom edited (vendored textual H or charge edits, result must sanitise), "
    "optionally with maps stripped; non-trivial = unbalanced variant that keeps the heavy-atom formula "
    "(H-only or charge-only imbalance). Distinct by the generated case."
)
ASSUMPTIONS = [
    "RDKit parsing, canonical SMILES of unmapped molecules, hydrogen and charge counts are trusted",
    "two mappings of a reaction are equivalent iff their ITS graphs are isomorphic with per-side labels "
    "(element, aromatic, hcount, charge[, neighbour elements]) and (reactant order, product order) on bonds",
    "reactant atoms are 'all distinguishable' iff the reactant graph has only the identity automorphism",
]


def _spec_changes_numbering(spec):
    return bool(spec.get("maps") or spec.get("atoms"))


def _well_formed_output(out):
    if not isinstance(out, str) or out.count(">>") != 1:
        return False
    return cg._well_formed(out)


# ====================================================================== (a) CanonRSMI
def _canon(backend, wl_iterations, rsmi):
    from synkit.Chem.Reaction.canon_rsmi import CanonRSMI

    return CanonRSMI(backend=backend, wl_iterations=wl_iterations).canonicalise(rsmi).canonical_rsmi


def body_canon(case, rec):
    x = case["rsmi"]
    backend = case["backend"]
    k = case.get("wl_iterations", 3)
    v1 = cg.variant(x, case["spec"])
    v2 = cg.variant(x, case["spec2"])
    rigid = ref.reactants_rigid(x)
    changed = _spec_changes_numbering(case["spec"]) or _spec_changes_numbering(case["spec2"])
    rec.nt(changed)
    rec.label("rigid-reactants" if rigid else "symmetric-reactants", f"atoms<={_size_class(x)}")
    if rigid and changed:
        rec.label("independence-evaluated")
    rec.show(dict(backend=backend, wl_iterations=k, input=v1, rigid=rigid))

    out1 = _canon(backend, k, v1)
    if not _well_formed_output(out1):
        raise Violation("output-well-formed", f"{backend}: canonical form of {v1} is {out1!r}")
    if cg.rxn_key(out1) != cg.rxn_key(v1):
        raise Violation("unmapped-sides", f"{backend}: {v1} -> {out1}: unmapped reactants/products changed")
    if not ref.iso_labelled(ref.labelled_its(out1), ref.labelled_its(v1)):
        raise Violation("its-isomorphic", f"{backend}: ITS of {out1} is not isomorphic to ITS of {v1}")
    again = _canon(backend, k, out1)
    if again != out1:
        raise Violation("fixed-point", f"{backend}: canonicalise({out1}) = {again}")
    # one canonicaliser object used for several calls (the class is chainable and keeps per-call state): every call
    # must give what a fresh object gives, also when the same reaction is submitted twice in a row
    from synkit.Chem.Reaction.canon_rsmi import CanonRSMI

    inst = CanonRSMI(backend=backend, wl_iterations=k)
    fresh_v2 = _canon(backend, k, v2)
    for step, (inp, want) in enumerate(((v1, out1), (v1, out1), (v2, fresh_v2), (v2, fresh_v2), (v1, out1))):
        got = inst.canonicalise(inp).canonical_rsmi
        if got != want:
            raise Violation(
                "instance-reuse",
                f"{backend}: call {step + 1} on one CanonRSMI object (inputs v1,v1,v2,v2,v1) returns {got}, a fresh object returns {want} for {inp}",
            )
    # independence last: a hit on a recorded finding must not hide the clauses above
    if rigid:
        out2 = fresh_v2
        if out2 != out1:
            raise Violation(
                f"independence-{backend}",
                f"{backend} (k={k}): two rewritings of one reaction with rigid reactants give different canonical "
                f"forms: {v1} -> {out1}  but  {v2} -> {out2}",
            )


def _size_class(rsmi):
    n = rsmi.count("[")  # bracket atoms of both sides
    for b in (20, 40, 80, 160):
        if n <= b * 2:
            return b
    return 999


def _canon_strategy(backend):
    def strat(tier):
        allr = ref.reactions()
        rigid = ref.rigid_reactions()
        spec = cg.variant_spec_strategy()
        ks = st.sampled_from([3, 3, 3, 3, 1, 2, 5]) if backend == "wl" else st.just(3)
        return st.fixed_dictionaries(
            dict(
                rsmi=st.one_of(st.sampled_from(rigid), st.sampled_from(allr)),
                backend=st.just(backend),
                wl_iterations=ks,
                spec=spec,
                spec2=spec,
            )
        )

    return strat


def wl_depth_tie(case, violation, match):
    """Attribution predicate for the recorded wl finding: the differing outputs are explained by the wl back-end's
    node-id tie-break iff two reactant atoms still share their colour after the configured number of refinement
    rounds (own refinement on the RDKit reactant graph, labels element/aromatic/charge/hcount, bond order)."""
    if case.get("backend") != "wl":
        return False
    return ref.has_colour_tie(case["rsmi"], int(case.get("wl_iterations", 3)))


def wl_stable_tie(case, violation, match):
    """Stricter variant for a tree in which depth-k ties are broken by refining to a stable partition (the proposed
    repair): only a tie that survives refinement to stability (|V| rounds) explains a wl dependence."""
    if case.get("backend") != "wl":
        return False
    n = cg.side_graph(case["rsmi"].split(">>")[0]).number_of_nodes()
    return ref.has_colour_tie(case["rsmi"], n)


KNOWN_PREDICATES = {"wl_depth_tie": wl_depth_tie, "wl_stable_tie": wl_stable_tie}


# ====================================================================== (b) Standardize.fit
def body_standardize(case, rec):
    from synkit.Chem.Reaction.standardize import Standardize

    x = case["rsmi"]
    v = cg.variant(x, case["spec"])
    rec.nt(_spec_changes_numbering(case["spec"]) or bool(case["spec"].get("frags")))
    rec.label(*(k for k in ("maps", "atoms", "frags") if case["spec"].get(k)))
    std = Standardize()
    a = std.fit(x)
    rec.show(dict(input=v, standardized=a))
    if not isinstance(a, str) or a.count(">>") != 1 or cg.rxn_key(a)[0] is None or cg.rxn_key(a)[1] is None:
        raise Violation("standardize-output", f"fit({x}) = {a!r}")
    if cg.rxn_key(a) != cg.rxn_key(x):
        raise Violation("standardize-same-reaction", f"fit({x}) = {a}: a different reaction")
    aa = std.fit(a)
    if aa != a:
        raise Violation("standardize-idempotent", f"fit({x}) = {a} but fit of that = {aa}")
    b = std.fit(v)
    if b != a:
        raise Violation("standardize-invariant", f"fit({x}) = {a} but fit({v}) = {b}")
    # the documented option that keeps stereochemistry: still idempotent and independent of the writing
    s1 = std.fit(x, ignore_stereo=False)
    if not isinstance(s1, str) or cg.rxn_key(s1) != cg.rxn_key(x):
        raise Violation("standardize-same-reaction", f"fit({x}, ignore_stereo=False) = {s1!r}")
    if std.fit(s1, ignore_stereo=False) != s1:
        raise Violation("standardize-idempotent", f"ignore_stereo=False: fit({x}) = {s1} is not a fixed point")
    s2 = std.fit(v, ignore_stereo=False)
    if s2 != s1:
        raise Violation("standardize-invariant", f"ignore_stereo=False: fit({x}) = {s1} but fit({v}) = {s2}")
    if "@" in s1:
        rec.label("stereo-kept")


def strat_standardize(tier):
    return st.fixed_dictionaries(dict(rsmi=st.sampled_from(ref.reactions()), spec=cg.variant_spec_strategy()))


# ====================================================================== (c) AAMValidator.smiles_check
METHODS = ("RC", "ITS")


def body_aam_renumber(case, rec):
    from synkit.Chem.Reaction.aam_validator import AAMValidator

    x = case["rsmi"]
    v = cg.variant(x, case["spec"])
    rec.nt(_spec_changes_numbering(case["spec"]))
    rec.label(*(k for k in ("maps", "atoms", "frags") if case["spec"].get(k)))
    rec.show(dict(mapped=v, ground_truth=x))
    for method in METHODS:
        if AAMValidator.smiles_check(v, x, check_method=method) is not True:
            raise Violation(f"renumbering-accepted-{method}", f"smiles_check({v}, {x}, {method}) is not True")
        if AAMValidator.smiles_check(x, v, check_method=method) is not True:
            raise Violation(f"renumbering-accepted-{method}", f"smiles_check({x}, {v}, {method}) is not True")


def strat_aam_renumber(tier):
    return st.fixed_dictionaries(dict(rsmi=st.sampled_from(ref.reactions()), spec=cg.variant_spec_strategy()))


def body_aam_swap(case, rec):
    from synkit.Chem.Reaction.aam_validator import AAMValidator

    x, a, b = case["rsmi"], case["a"], case["b"]
    y = ref.swap_product_maps(x, a, b)
    assert cg._well_formed(y) and cg.rxn_key(y) == cg.rxn_key(x), "swap changed the chemistry"
    yv = cg.variant(y, case["spec"])
    its_x, its_y = ref.labelled_its(x), ref.labelled_its(yv)
    rc_x, rc_y = ref.centre_of(its_x), ref.centre_of(its_y)
    exp = {"ITS": ref.iso_labelled(its_x, its_y), "RC": ref.iso_labelled(rc_x, rc_y)}
    if exp["ITS"] and not exp["RC"]:
        raise AssertionError("reference inconsistent: ITS isomorphic but centres not")
    unl = ref.iso_unlabelled(rc_x, rc_y)
    cls = (
        "true-symmetry" if exp["ITS"]
        else "centre-equivalent-only" if exp["RC"]
        else "unlabelled-isomorphic-inequivalent" if unl
        else "different-shape"
    )
    rec.label(cls)
    rec.nt(unl)
    rec.show(dict(ground_truth=x, swapped=yv, pair=[a, b], cls=cls))
    for method in METHODS:
        got = AAMValidator.smiles_check(yv, x, check_method=method)
        if bool(got) != exp[method] or not isinstance(got, bool):
            raise Violation(
                f"swap-verdict-{method}",
                f"maps {a},{b} transposed on the product side ({cls}): smiles_check({yv}, {x}, {method}) = {got}, "
                f"own isomorphism decision = {exp[method]}",
            )


def strat_aam_swap(tier):
    allc = [dict(rsmi=r, a=a, b=b) for r, a, b, _ in ref.swap_candidates()]
    hard = [dict(rsmi=r, a=a, b=b) for r, a, b, same_shape in ref.swap_candidates() if same_shape]
    none = st.fixed_dictionaries(dict(maps=st.none(), atoms=st.none(), frags=st.none(), reverse=st.just(False)))
    spec = st.one_of(none, cg.variant_spec_strategy())
    return st.builds(lambda c, s: dict(c, spec=s), st.one_of(st.sampled_from(hard), st.sampled_from(allc)), spec)


# ---------------------------------------------------------------------- check_equivariant_graph, directly
# The product-side transpositions above never produce two graphs whose node labels match while only the bond
# order pairs differ (checked on all 16 148 centre x any-atom transpositions of the inputs), so the bond part of
# the matcher is exercised on small synthetic ITS-like graphs: node label typesGH, edge label order pair.
_TGH = [
    [["C", False, 0, 0, ["C"]], ["C", False, 0, 0, ["C"]]],
    [["C", False, 1, 0, ["C"]], ["C", False, 0, 0, ["C", "O"]]],
    [["O", False, 1, 0, ["C"]], ["O", False, 0, 0, ["C", "C"]]],
    [["N", False, 0, 1, ["C"]], ["N", False, 0, 0, ["C"]]],
]
_ORD = [[1.0, 1.0], [1.0, 2.0], [2.0, 1.0], [1.0, 0.0], [0.0, 1.0]]


def _its_like(case):
    import networkx as nx

    g = nx.Graph()
    for n, a in case["nodes"]:
        t = a["typesGH"]
        g.add_node(n, typesGH=tuple((s[0], s[1], s[2], s[3], list(s[4])) for s in t), key=repr(t))
    for u, v, a in case["edges"]:
        g.add_edge(u, v, order=tuple(a["order"]), standard_order=a["order"][0] - a["order"][1])
    return g


def body_equivariant(case, rec):
    from synkit.Chem.Reaction.aam_validator import AAMValidator

    from vlib.oracles import iso

    gs = [_its_like(c) for c in case["graphs"]]
    node_ok = iso.eq_on(("key",))
    exp, order_only = [], 0
    for i in range(len(gs)):
        for j in range(i + 1, len(gs)):
            if iso.is_isomorphic(gs[i], gs[j], node_ok, iso.eq_on(("order",))):
                exp.append((i, j))
            elif iso.is_isomorphic(gs[i], gs[j], node_ok, lambda a, b: True):
                order_only += 1
    rec.nt(bool(exp) or order_only > 0)
    rec.label(f"isomorphic-pairs={min(len(exp), 3)}", f"pairs-differing-in-bond-orders-only={min(order_only, 2)}")
    rec.show(dict(graphs=case["graphs"], isomorphic_pairs=exp))
    got, count = AAMValidator.check_equivariant_graph(gs)
    if sorted(map(tuple, got)) != exp or count != len(exp):
        raise Violation("equivariant-pairs", f"check_equivariant_graph -> {got}, {count}; own isomorphism decision {exp} on {case['graphs']}")


def strat_equivariant(tier):
    from vlib import graph_gen as gg

    na = st.fixed_dictionaries(dict(typesGH=st.sampled_from(_TGH)))
    ea = st.fixed_dictionaries(dict(order=st.sampled_from(_ORD)))

    @st.composite
    def build(draw):
        g0 = draw(gg.graphs(min_nodes=2, max_nodes=5, node_attrs=na, edge_attrs=ea, max_components=2))
        out = [g0]
        for _ in range(draw(st.integers(1, 3))):
            kind = draw(st.sampled_from(["copy", "edit", "edit", "fresh"]))
            if kind == "copy":
                out.append(draw(gg.relabelled(g0))[0])
            elif kind == "edit":
                e = draw(gg.one_edit(g0, node_alts={"typesGH": _TGH}, edge_alts={"order": _ORD}))[0]
                out.append(draw(gg.relabelled(e))[0])
            else:
                out.append(draw(gg.graphs(min_nodes=2, max_nodes=5, node_attrs=na, edge_attrs=ea, max_components=2)))
        return {"graphs": list(draw(st.permutations(out)))}

    return build()


# ====================================================================== (d) BalanceReactionCheck
def body_balance(case, rec):
    from synkit.Chem.Reaction.balance_check import BalanceReactionCheck

    x = cg.variant(case["rsmi"], case["spec"])
    y, applied = ref.apply_edit(x, case.get("edit"))
    r, p = y.split(">>")
    if cg.parse(r) is None or cg.parse(p) is None or not r or not p:
        rec.label("edit-rejected(unparsable)")
        return
    if case.get("unmap"):
        r, p = cg.unmapped(r), cg.unmapped(p)
        y = f"{r}>>{p}"
    # other valid spellings of molecular hydrogen: the single-atom form [HH] (one H atom carrying one hydrogen);
    # optionally an extra H2 on one or both sides (H-only imbalance, or still balanced)
    if case.get("h2"):
        def respell(side):
            out = []
            for f in side.split("."):
                m = cg.parse(f)
                if m is not None and m.GetNumAtoms() == 2 and m.GetNumBonds() == 1 and all(a.GetAtomicNum() == 1 and a.GetFormalCharge() == 0 for a in m.GetAtoms()):
                    f = "[HH]"
                out.append(f)
            return ".".join(out)

        r, p = respell(r), respell(p)
        if case["h2"] in (1, 3):
            r += ".[HH]"
        if case["h2"] in (2, 3):
            p += ".[HH]"
        y = f"{r}>>{p}"
        if "[HH]" in y:
            rec.label("dihydrogen-as-[HH]")
    fr, fp = cg.side_formula(r), cg.side_formula(p)
    exp = fr == fp
    kind = (case.get("edit") or {}).get("kind", "none") if applied else "none"
    if exp:
        cls = "balanced"
    elif ref.heavy_formula(r) != ref.heavy_formula(p):
        cls = "heavy-atoms-differ"
    elif fr[0] != fp[0] and fr[1] != fp[1]:
        cls = "H-and-charge-only"
    elif fr[0] != fp[0]:
        cls = "H-only"
    else:
        cls = "charge-only"
    rec.label(cls, f"edit={kind}", f"{cls}|edit={kind}")
    rec.nt(cls in ("H-only", "charge-only", "H-and-charge-only"))
    rec.show(dict(reaction=y, cls=cls, reactants=[dict(fr[0]), fr[1]], products=[dict(fp[0]), fp[1]]))
    got = BalanceReactionCheck.rsmi_balance_check(y)
    if got is not exp:
        raise Violation(
            "balance-verdict" + ("" if exp else f"-{cls}"),
            f"rsmi_balance_check({y}) = {got}; own count: reactants {dict(fr[0])} q={fr[1]}, products {dict(fp[0])} q={fp[1]}",
        )


def strat_balance(tier):
    frag = st.fixed_dictionaries(
        dict(kind=st.sampled_from(["delete", "duplicate"]), side=st.integers(0, 1), frag=st.integers(0, 7))
    )
    atom = st.fixed_dictionaries(
        dict(kind=st.just("atom"), side=st.integers(0, 1), rule=st.integers(0, len(ref.ATOM_EDITS) - 1), occ=st.integers(0, 5))
    )
    none = st.fixed_dictionaries(dict(maps=st.none(), atoms=st.none(), frags=st.none(), reverse=st.just(False)))
    return st.fixed_dictionaries(
        dict(
            rsmi=st.sampled_from(ref.reactions()),
            spec=st.one_of(none, none, cg.variant_spec_strategy()),
            edit=st.one_of(st.none(), frag, atom, atom),
            unmap=st.sampled_from([False, False, True]),
            h2=st.sampled_from([0, 0, 0, 1, 2, 3, 4]),
        )
    )


SUBS = [
    Sub("canon_wl", body_canon, strategy=_canon_strategy("wl"), examples={"quick": 800, "thorough": 16000},
        shards={"quick": 8, "thorough": 16}, doc="CanonRSMI(backend='wl')"),
    Sub("canon_nauty", body_canon, strategy=_canon_strategy("nauty"), examples={"quick": 400, "thorough": 6000},
        shards={"quick": 8, "thorough": 16}, doc="CanonRSMI(backend='nauty')"),
    Sub("standardize", body_standardize, strategy=strat_standardize, examples={"quick": 1200, "thorough": 20000},
        shards={"quick": 4, "thorough": 16}),
    Sub("aam_renumber", body_aam_renumber, strategy=strat_aam_renumber, examples={"quick": 600, "thorough": 8000},
        shards={"quick": 4, "thorough": 16}),
    Sub("aam_swap", body_aam_swap, strategy=strat_aam_swap, examples={"quick": 1000, "thorough": 12000},
        shards={"quick": 4, "thorough": 16}),
    Sub("equivariant_graphs", body_equivariant, strategy=strat_equivariant, examples={"quick": 1200, "thorough": 20000},
        shards={"quick": 2, "thorough": 8}, doc="AAMValidator.check_equivariant_graph on synthetic ITS-like graphs"),
    Sub("balance", body_balance, strategy=strat_balance, examples={"quick": 4000, "thorough": 60000},
        shards={"quick": 4, "thorough": 16}),
]
