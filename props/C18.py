"""C18 - the network canonical form is a complete invariant of the view; automorphism data are exact."""
from __future__ import annotations

import itertools
import json
import os
from contextlib import contextmanager

from hypothesis import strategies as st

from vlib import c18_ref as R
from vlib import crn_gen
from vlib.oracles import iso
from vlib.runner import Inconclusive, Sub, Violation

PROPERTY = "C18"
RULE = (
    "case = network + configuration (bipartite / species view, include_stoich, integer ids, compared node and edge "
    "keys) + a representation change (species renamed by a generated bijection onto other valid names, reaction "
    "list reordered, explicit / regenerated reaction ids) + optionally a one-step edit (coefficient, species moved, "
    "reaction reversed / duplicated / dropped, rule label) applied before the representation change. Exhaustive: "
    "every network over 3 species with <= 2 reactions (coefficients 0..2), one representative per species "
    "permutation class, checked under all 6 species permutations x all reaction orders; Hypothesis networks "
    "<= 6 species / 5 reactions; symmetric families (rings, stars, duplicated reactions, disjoint copies, trees). "
    "Oracle: view rebuilt from the case; brute-force isomorphisms / automorphism group of the view restricted to the "
    "keys each class documents as compared. Non-trivial = view with a non-identity automorphism, or an edited "
    "pair; distinct by (network, configuration, representation change, edit). faultinj: same networks, `id` of "
    "synkit.CRN.Topo.canon shadowed so that chosen calls return the previous (freed) address; non-trivial = the "
    "injection changed the execution (number of signature evaluations / id calls differs from the clean run). "
    "wl: non-trivial = view with a non-identity automorphism."
)
ASSUMPTIONS = [
    "'structure' is what each class documents as compared: CRNCanonicalizer arcs + node_attr_keys + edge_attr_keys; "
    "CRNAutomorphism arcs + node_attr_keys (no edge attributes) - each is checked against its own notion",
    "explicit reaction ids are chosen so that they never equal a species name (the un-prefixed bipartite view shares "
    "one name space)",
    "sub-checks families/exhaustive/random run on real addresses; a spy on the module's `id` (values unchanged) tells "
    "whether CPython really reused a freed address inside one _refine call; a CRNCanonicalizer clause that fails in "
    "such a run and is quiet when id() never repeats is reported as <clause>@natural-id-reuse (allocator dependent, "
    "does not replay)",
    "fault injection: real address reuse is simulated by shadowing the module global `id` of synkit.CRN.Topo.canon; a "
    "pass means the result does not depend on whether a freed address is handed out again, not that CPython never "
    "does so",
]
BIG = 10**9
CANON_CLAUSES = ("aut-count", "aut-maps", "orbits", "nontrivial-flag", "canon-repeat", "rename-identical", "iso-but-different", "noniso-but-identical", "early-stop", "canon-iso")
NATURAL = "@natural-id-reuse"


class Ctx:
    """How CRNCanonicalizer is run.  natural (default): real addresses; a spy records the values id() returns and the
    boundaries of _refine calls, so that a run in which CPython really handed a freed address to a later cache key is
    recognised (observation only, nothing is changed).  unique: id() never repeats a value."""

    def __init__(self, unique=False):
        self.unique = unique
        self.reuse = 0
        self.deferred = []  # violations of the low-severity clause, raised only if nothing else fails

    @contextmanager
    def canon_calls(self, c):
        import synkit.CRN.Topo.canon as canon_mod

        if self.unique:
            with R.shadow_id(canon_mod, None):
                yield
            return
        with R.spy_id(canon_mod) as log:
            orig = c._refine

            def refine(G, part):
                a = len(log)
                out = orig(G, part)
                ids = log[a:]
                if len(set(ids)) < len(ids):
                    self.reuse += 1
                return out

            c._refine = refine  # instance attribute, observation only
            try:
                yield
            finally:
                del c._refine


_NATURAL_MEMO = {}


class _NoRec:
    def __getattr__(self, name):
        return lambda *a, **k: None


def guarded(inner):
    """Run `inner(case, rec, ctx)` on real addresses.  If a clause of CRNCanonicalizer fails in a run in which an
    address really was reused inside one _refine call, and the same case is quiet when id() never repeats, the
    violation is re-labelled <clause>@natural-id-reuse (same defect as the fault-injection sub-check, met in the wild;
    such a failure depends on the allocator state and does not replay)."""

    def body(case, rec):
        # A failure that depends on the allocator state does not recur on demand, and Hypothesis re-executes failing
        # examples (it would report the sub-check as flaky): within one worker process the first verdict on a case
        # stands.  All raises happen outside `except` blocks so that the exception origin is stable.
        memo_key = json.dumps(case, sort_keys=True, default=str)
        natural = _NATURAL_MEMO.get(memo_key)
        plain = None
        if natural is None:
            ctx = Ctx()
            try:
                inner(case, rec, ctx)
            except Violation as v:
                plain = v
            if plain is None:
                if ctx.reuse:
                    rec.label("natural-id-reuse-observed(harmless)")
                if ctx.deferred:
                    raise Violation(*ctx.deferred[0])
                return
            if ctx.reuse and plain.clause in CANON_CLAUSES:
                again = None
                try:
                    inner(case, _NoRec(), Ctx(unique=True))
                except Violation as v2:
                    again = v2
                if again is None:
                    natural = _NATURAL_MEMO[memo_key] = (
                        plain.clause + NATURAL,
                        plain.message + " [in this run CPython reused a freed address for the refinement cache key "
                        "inside one _refine call; the same case is quiet when id() never repeats a value; depends on "
                        "the allocator state, so the replay file normally does not reproduce it - see sub-check faultinj]",
                    )
        if natural is not None:
            raise Violation(*natural)
        raise Violation(plain.clause, plain.message)

    body.__doc__ = inner.__doc__
    return body


# ----------------------------------------------------------------------------------------------------
# configuration
# ----------------------------------------------------------------------------------------------------
def cfg_keys(cfg):
    nk = cfg.get("nkeys", "kind")
    nkeys = ("kind",) if nk == "kind" else (("kind", "label") if nk == "kind+label" else ())
    if cfg["view"] == "bip":
        ekeys = ("role", "stoich")
    else:
        ekeys = ("rules", "stoich_r", "stoich_p") if cfg.get("ekeys") == "rich" else ("role", "stoich")
    return nkeys, ekeys


def cfg_kwargs(cfg):
    return dict(
        include_rule=cfg["view"] == "bip",
        include_stoich=bool(cfg.get("stoich", True)),
        integer_ids=bool(cfg.get("int_ids", False)) and cfg["view"] == "bip",
    )


def cfg_tag(cfg):
    return "{}{}{}{}{}".format(
        cfg["view"],
        "" if cfg.get("stoich", True) else "-nostoich",
        "-int" if cfg.get("int_ids") and cfg["view"] == "bip" else "",
        "-nokind" if cfg.get("nkeys", "kind") == "none" else ("-labelled" if cfg.get("nkeys") == "kind+label" else ""),
        "-rich" if cfg.get("ekeys") == "rich" and cfg["view"] == "sp" else "",
    )


ALL_CFGS = [
    {"view": "bip", "stoich": True},
    {"view": "bip", "stoich": False},
    {"view": "sp"},
    {"view": "sp", "ekeys": "rich"},
    {"view": "bip", "stoich": True, "int_ids": True},
    {"view": "bip", "stoich": True, "nkeys": "none"},
    {"view": "sp", "nkeys": "none"},
]


def build(rx, ids=None):
    from synkit.CRN.Hypergraph.hypergraph import CRNHyperGraph

    H = CRNHyperGraph()
    got = []
    for i, (r, p, rule) in enumerate(rx):
        e = H.add_rxn(dict(r), dict(p), rule=rule, edge_id=(ids[i] if ids else None))
        got.append(e.id)
    return H, got


# ----------------------------------------------------------------------------------------------------
# one network under one configuration: every single-network clause
# ----------------------------------------------------------------------------------------------------
def check_view(G, rx, ids, cfg, where):
    kw = cfg_kwargs(cfg)
    if cfg["view"] == "bip":
        ref = R.ref_bipartite(rx, ids, kw["include_stoich"])
        nk, ek = R.BIP_NODE_KEYS, R.BIP_EDGE_KEYS
    else:
        ref = R.ref_species(rx)
        nk, ek = R.SP_NODE_KEYS, R.SP_EDGE_KEYS
    if not G.is_directed() or G.is_multigraph():
        raise Violation("view", f"{where}: view is not a simple DiGraph")
    if kw["integer_ids"]:
        ns, nr = len(R.species_of(rx)), len(rx)
        if sorted(G.nodes) != list(range(1, ns + nr + 1)):
            raise Violation("view", f"{where}: integer ids {sorted(G.nodes)} are not 1..N+M")
        if any(G.nodes[i].get("kind") != "species" for i in range(1, ns + 1)):
            raise Violation("view", f"{where}: species are not numbered 1..N")
        if not iso.is_isomorphic(G, ref, R.eq_keys(nk), R.eq_keys(ek)):
            raise Violation("view", f"{where}: integer-id bipartite view is not isomorphic to the network")
    else:
        a, b = R.graph_key(G, nk, ek), R.graph_key(ref, nk, ek)
        if a != b:
            raise Violation("view", f"{where}: view {R.key_str(a)} != network {R.key_str(b)}")


def analyse(rx, ids, cfg, where, ctx, automorphism_class=True, extras=False):
    """Build the network, run both classes, check every single-network clause.  Returns facts used by the
    pair clauses (canonical key, view, group order)."""
    import synkit.CRN.Topo.canon as canon_mod
    from synkit.CRN.Topo.automorphism import CRNAutomorphism

    nkeys, ekeys = cfg_keys(cfg)
    kw = cfg_kwargs(cfg)
    H, got_ids = build(rx, ids)
    c = canon_mod.CRNCanonicalizer(H, node_attr_keys=nkeys, edge_attr_keys=ekeys, **kw)
    G = c.G
    check_view(G, rx, got_ids, cfg, where)
    nodes = list(G.nodes)
    n = len(nodes)
    node_ok, edge_ok = R.eq_keys(nkeys), R.eq_keys(ekeys)

    # reference group for the canonicaliser's notion of structure (node keys + edge keys)
    auts = list(iso.isomorphisms(G, G, node_ok, edge_ok))
    orbits = R.partition(iso.orbits_from(auts, nodes))
    if not any(all(k == v for k, v in a.items()) for a in auts):
        raise AssertionError("oracle bug: identity is not among the brute-force automorphisms")

    with ctx.canon_calls(c):
        s = c.summary()
        if extras:
            x_flag, x_orbits, x_graph = c.has_nontrivial_automorphism(), c.orbits(), c.graph()
    if s["early_stop"]:
        raise Violation("early-stop", f"{where}: early_stop reported although no depth/time limit was given")
    Gc = s["canon_graph"]
    if Gc.number_of_nodes() != n or Gc.number_of_edges() != G.number_of_edges() or not iso.is_isomorphic(Gc, G, node_ok, edge_ok):
        raise Violation(
            "canon-iso",
            f"{where}: canonical graph {R.key_str(R.graph_key(Gc, nkeys, ekeys))} is not isomorphic to its view "
            f"{R.key_str(R.graph_key(G, nkeys, ekeys))}",
        )
    if s["automorphism_count"] != len(auts):
        raise Violation(
            "aut-count",
            f"{where}: CRNCanonicalizer reports {s['automorphism_count']} automorphisms, the view has {len(auts)} "
            f"(node keys {nkeys}, edge keys {ekeys})",
        )
    if R.mapset(s["mappings"]) != R.mapset(auts) or len(s["mappings"]) != len(auts):
        raise Violation("aut-maps", f"{where}: reported mappings are not exactly the automorphisms of the view")
    if set(R.partition(s["orbits"])) != set(orbits):
        raise Violation("orbits", f"{where}: orbits {R.partition(s['orbits'])} != exchangeability classes {orbits}")
    if len(s["orbits"]) != len(orbits):
        # raised at the end of the body: the classes are right, one of them is listed more than once
        ctx.deferred.append(
            ("orbits-duplicated-class", f"{where}: the orbit list has {len(s['orbits'])} entries for {len(orbits)} classes: {R.partition(s['orbits'])}")
        )
    if extras:
        if x_flag != (len(auts) > 1):
            raise Violation("nontrivial-flag", f"{where}: has_nontrivial_automorphism != (|Aut| > 1), |Aut| = {len(auts)}")
        if set(R.partition(x_orbits)) != set(orbits):
            raise Violation("orbits", f"{where}: orbits() differs from the exchangeability classes")
        if R.graph_key(x_graph, nkeys, ekeys) != R.graph_key(Gc, nkeys, ekeys):
            raise Violation("canon-repeat", f"{where}: graph() and summary()['canon_graph'] differ on the same object")

    out = dict(
        key=R.graph_key(Gc, nkeys, ekeys),
        G=G,
        n=n,
        aut=len(auts),
        individualised=len(s["canonical_perm"]) > n,
        aut_nodes_only=None,
    )

    if automorphism_class:
        # CRNAutomorphism: node keys only (its matcher has no edge match and its documentation promises none)
        auts2 = list(iso.isomorphisms(G, G, node_ok, lambda a, b: True))
        orbits2 = R.partition(iso.orbits_from(auts2, nodes))
        a = CRNAutomorphism(H, node_attr_keys=nkeys, **kw)
        if R.graph_key(a.G, R.BIP_NODE_KEYS, ekeys) != R.graph_key(G, R.BIP_NODE_KEYS, ekeys):
            raise Violation("view", f"{where}: CRNAutomorphism and CRNCanonicalizer build different views")
        r = a.summary(max_count=BIG, timeout_sec=None)
        if r["stopped_early"]:
            raise Inconclusive()
        if r["automorphism_count"] != len(auts2):
            raise Violation(
                "vf2-count",
                f"{where}: CRNAutomorphism reports {r['automorphism_count']} automorphisms, the view has {len(auts2)} "
                f"(arcs + node keys {nkeys})",
            )
        if R.mapset(r["sample_mappings"]) != R.mapset(auts2) or r["mapping_count_used"] != len(auts2):
            raise Violation("vf2-maps", f"{where}: sample_mappings are not exactly the automorphisms of the view")
        if R.partition(r["orbits"]) != orbits2 or len(r["orbits"]) != len(orbits2):
            raise Violation("vf2-orbits", f"{where}: orbits {R.partition(r['orbits'])} != exchangeability classes {orbits2}")
        if extras:
            if a.has_nontrivial_automorphism(timeout_sec=None) != (len(auts2) > 1):
                raise Violation("nontrivial-flag", f"{where}: CRNAutomorphism.has_nontrivial_automorphism != (|Aut| > 1)")
            if R.mapset(a.iter(max_count=None, timeout_sec=None)) != R.mapset(auts2):
                raise Violation("vf2-maps", f"{where}: iter() does not yield exactly the automorphisms")
        out["aut_nodes_only"] = len(auts2)
    return out


def _where(rx, cfg, ids=None):
    return f"[{cfg_tag(cfg)}] {crn_gen.rx_str({'rx': rx})}" + (f" ids={ids}" if ids else "")


def compare_variant(base, var, where_b, where_v, clause="rename-identical"):
    if base["key"] != var["key"]:
        raise Violation(
            clause,
            f"{where_b} and its renamed/reordered copy {where_v} get different canonical graphs: "
            f"{R.key_str(base['key'])} vs {R.key_str(var['key'])}",
        )
    if base["aut"] != var["aut"]:
        raise AssertionError("oracle bug: renamed copy has a different brute-force group order")


def compare_pair(a, b, cfg, where_a, where_b):
    nkeys, ekeys = cfg_keys(cfg)
    same_ref = iso.is_isomorphic(a["G"], b["G"], R.eq_keys(nkeys), R.eq_keys(ekeys))
    same_can = a["key"] == b["key"]
    if same_ref and not same_can:
        raise Violation(
            "iso-but-different",
            f"views of {where_a} and {where_b} are isomorphic on {nkeys}+{ekeys} but the canonical graphs differ: "
            f"{R.key_str(a['key'])} vs {R.key_str(b['key'])}",
        )
    if same_can and not same_ref:
        raise Violation(
            "noniso-but-identical",
            f"views of {where_a} and {where_b} are not isomorphic on {nkeys}+{ekeys} but both get {R.key_str(a['key'])}",
        )
    return same_ref


def common_labels(rec, cfg, base):
    rec.label("cfg=" + cfg_tag(cfg))
    rec.label("aut>1" if base["aut"] > 1 else "aut=1")
    if base["individualised"]:
        rec.label("search-individualised")
    if base["aut_nodes_only"] is not None and base["aut_nodes_only"] != base["aut"]:
        rec.label("classes-differ(stoich-ignored-by-CRNAutomorphism)")
    rec.label(f"view-nodes={min(base['n'], 12)}")


# ----------------------------------------------------------------------------------------------------
# sub-check bodies
# ----------------------------------------------------------------------------------------------------
def _body_random(case, rec, ctx):
    """network + representation change + optional edit (Hypothesis)."""
    rx, cfg = case["rx"], case["cfg"]
    species = R.species_of(rx)
    ids = case.get("ids")
    ids = ids[: len(rx)] if ids else None
    wb = _where(rx, cfg, ids)
    base = analyse(rx, ids, cfg, wb, ctx)
    common_labels(rec, cfg, base)

    erx, ekind = R.apply_edit(rx, case.get("edit"))
    names = case["ren"]
    sp2 = R.species_of(erx)
    allsp = species + [s for s in sp2 if s not in species]
    mapping = dict(zip(allsp, names))
    if cfg.get("nkeys") == "kind+label":
        mapping = {x: x for x in allsp}  # names are labels here: keep them, vary reaction order and ids only
    if len(mapping) != len(allsp) or len(set(mapping.values())) != len(allsp):
        raise AssertionError("generator bug: renaming is not a bijection")
    vrx = R.reorder(R.rename(erx, mapping), case["order"])
    ids2 = case.get("ids2")
    ids2 = ids2[: len(vrx)] if ids2 else None
    wv = _where(vrx, cfg, ids2)
    var = analyse(vrx, ids2, cfg, wv, ctx, automorphism_class=False)
    rec.label("edit=" + ekind)
    if ekind in ("none", "noop"):
        compare_variant(base, var, wb, wv)
        rec.nt(base["aut"] > 1)
    else:
        same = compare_pair(base, var, cfg, wb, wv)
        rec.label(f"edit-{'iso' if same else 'noniso'}")
        rec.nt(True)
    rec.show(dict(cfg=cfg_tag(cfg), reactions=crn_gen.rx_str({"rx": rx}), variant=crn_gen.rx_str({"rx": vrx}), edit=ekind, aut=base["aut"]))


def _body_exhaustive(case, rec, ctx):
    """one representative network, one configuration: all species permutations x all reaction orders."""
    rx, cfg = case["rx"], case["cfg"]
    species = ["A", "B", "C"]
    wb = _where(rx, cfg)
    base = analyse(rx, None, cfg, wb, ctx, extras=True)
    common_labels(rec, cfg, base)
    rec.nt(base["aut"] > 1)
    k = 0
    for perm in itertools.permutations(species):
        mapping = dict(zip(species, perm))
        ren = R.rename(rx, mapping)
        for order in R.all_orders(len(rx)):
            if list(perm) == species and list(order) == list(range(len(rx))):
                continue
            vrx = [ren[i] for i in order]
            wv = _where(vrx, cfg)
            var = analyse(vrx, None, cfg, wv, ctx, automorphism_class=False)
            compare_variant(base, var, wb, wv)
            k += 1
    rec.show(dict(cfg=cfg_tag(cfg), reactions=crn_gen.rx_str({"rx": rx}), variants=k, aut=base["aut"]))


def family_rx(kind, m, copies):
    """symmetric families; species names S<c>_<i> are replaced by pool names in the body."""
    rx = []
    for c in range(copies):
        sp = [f"S{c}x{i}" for i in range(max(m, 1) * 2 + 2)]
        if kind == "ring":  # A>>B>>C>>A
            rx += [[{sp[i]: 1}, {sp[(i + 1) % m]: 1}, "r"] for i in range(m)]
        elif kind == "ring2":  # 2A>>B, 2B>>C ...: stoichiometry identical around the ring
            rx += [[{sp[i]: 2}, {sp[(i + 1) % m]: 1}, "r"] for i in range(m)]
        elif kind == "revring":  # reversible ring: dihedral symmetry
            rx += [[{sp[i]: 1}, {sp[(i + 1) % m]: 1}, "r"] for i in range(m)]
            rx += [[{sp[(i + 1) % m]: 1}, {sp[i]: 1}, "r"] for i in range(m)]
        elif kind == "chain":
            rx += [[{sp[i]: 1}, {sp[i + 1]: 1}, "r"] for i in range(m - 1)]
        elif kind == "star":  # hub >> leaf_i
            rx += [[{sp[0]: 1}, {sp[i]: 1}, "r"] for i in range(1, m + 1)]
        elif kind == "star1":  # one reaction hub >> all leaves
            rx += [[{sp[0]: 1}, {sp[i]: 1 for i in range(1, m + 1)}, "r"]]
        elif kind == "dup":  # m copies of the same reaction
            rx += [[{sp[0]: 1, sp[1]: 1}, {sp[2]: 1}, "r"] for _ in range(m)]
        elif kind == "tree":  # binary tree, each parent >> its two children
            rx += [[{sp[i]: 1}, {sp[2 * i + 1]: 1, sp[2 * i + 2]: 1}, "r"] for i in range(m) if 2 * i + 2 < m]
        elif kind == "almostring":  # ring with one coefficient changed: symmetry visible only through 'stoich'
            rx += [[{sp[i]: 1}, {sp[(i + 1) % m]: (2 if i == 0 else 1)}, "r"] for i in range(m)]
        else:
            raise ValueError(kind)
    return rx


FAMILIES = (
    [("ring", m, 1) for m in (2, 3, 4, 5, 6)]
    + [("ring", m, 2) for m in (2, 3, 4)]
    + [("ring2", m, 1) for m in (3, 4, 5)]
    + [("revring", m, 1) for m in (3, 4)]
    + [("almostring", m, 1) for m in (3, 4, 5)]
    + [("chain", m, 2) for m in (3, 4, 5)]
    + [("chain", 3, 3)]
    + [("star", m, 1) for m in (2, 3, 4, 5)]
    + [("star1", m, 1) for m in (3, 4, 5)]
    + [("star", 2, 2), ("star", 3, 2)]
    + [("dup", m, 1) for m in (2, 3, 4)]
    + [("dup", 2, 2)]
    + [("tree", 7, 1), ("tree", 5, 2), ("tree", 7, 2)]
)


def family_cfgs(kind, m, copies):
    rx = family_rx(kind, m, copies)
    ns = len(R.species_of(rx))
    out = []
    for cfg in ALL_CFGS:
        size = ns + (len(rx) if cfg["view"] == "bip" else 0)
        if size > 14:
            continue
        if cfg.get("nkeys") == "none" and size > 10:
            continue
        out.append(cfg)
    return out


def enum_families(tier):
    seed = int(os.environ.get("VERIF_SEED", "1") or 1)
    reps = 2 if tier == "quick" else 8
    for kind, m, copies in FAMILIES:
        for cfg in family_cfgs(kind, m, copies):
            for j in range(reps):
                yield {"family": [kind, m, copies], "cfg": cfg, "salt": [seed, j]}


def _body_family(case, rec, ctx):
    kind, m, copies = case["family"]
    cfg = case["cfg"]
    rx0 = family_rx(kind, m, copies)
    sp = R.species_of(rx0)
    pool = R.NAME_POOL + [f"N{i}" for i in range(40)]
    salt = tuple(case["salt"])
    w = None
    first = None
    for v in range(2):
        names = R.det_perm(pool, kind, m, copies, salt, v)[: len(sp)]
        rx = R.rename(rx0, dict(zip(sp, names)))
        rx = [rx[i] for i in R.det_perm(range(len(rx)), "order", kind, m, copies, salt, v)]
        ids = None
        if v == 1:
            ids = [f"k{i}" for i in R.det_perm(range(len(rx)), "ids", salt)]
        wv = _where(rx, cfg, ids)
        res = analyse(rx, ids, cfg, wv, ctx, extras=(v == 0))
        if first is None:
            first, w = res, wv
            common_labels(rec, cfg, res)
            rec.label(f"family={kind}")
        else:
            compare_variant(first, res, w, wv)
    rec.nt(first["aut"] > 1)
    rec.distinct_key([case["family"], cfg_tag(cfg), case["salt"][1]])
    rec.show(dict(family=case["family"], cfg=cfg_tag(cfg), aut=first["aut"], view_nodes=first["n"]))


body_random = guarded(_body_random)
body_exhaustive = guarded(_body_exhaustive)
body_family = guarded(_body_family)


def body_faultinj(case, rec):
    """Simulated address reuse for the refinement cache of CRNCanonicalizer._refine.

    `epoch = id(tuple(tuple(c) for c in part))`: the tuple is a temporary whose only reference is the argument of the
    id() call, so it is deallocated as soon as id() returns - before `epoch` is even bound, and long before the next
    loop iteration builds its own temporary.  The cache keys keep the *integer*, not the tuple.  Hence at every later
    id() call each earlier temporary is dead and CPython may legally place the new tuple at the same address (it does:
    see the natural-reuse label / the tree families).  The shim therefore may repeat the previous value at any call
    index; two temporaries are never alive at once, so no aliasing of live objects is simulated."""
    import synkit.CRN.Topo.canon as canon_mod

    rx, cfg = case["rx"], case["cfg"]
    nkeys, ekeys = cfg_keys(cfg)
    kw = cfg_kwargs(cfg)
    where = _where(rx, cfg)

    def run(flags):
        H, _ = build(rx, None)
        c = canon_mod.CRNCanonicalizer(H, node_attr_keys=nkeys, edge_attr_keys=ekeys, **kw)
        c.G  # noqa: B018 - build the view outside the shim
        sig_calls = [0]
        orig_sig = c._sig

        def counting_sig(G, v, part):
            sig_calls[0] += 1
            return orig_sig(G, v, part)

        c._sig = counting_sig  # instance attribute: observation only
        with R.shadow_id(canon_mod, flags) as stt:
            s = c.summary()
        return dict(
            key=R.graph_key(s["canon_graph"], nkeys, ekeys),
            count=s["automorphism_count"],
            orbits=R.partition(set(map(frozenset, s["orbits"]))),  # as a set: repeated classes are another clause
            maps=R.mapset(s["mappings"]),
            sig_calls=sig_calls[0],
            id_calls=stt["calls"],
            reused=stt["reused"],
        )

    clean = run(None)
    dirty = run(case["flags"])
    affected = dirty["sig_calls"] != clean["sig_calls"] or dirty["id_calls"] != clean["id_calls"]
    rec.label("cfg=" + cfg_tag(cfg))
    rec.label("id-calls=0" if clean["id_calls"] == 0 else "id-called")
    rec.label("execution-changed" if affected else ("reuse-no-effect" if dirty["reused"] else "no-reuse-injected"))
    rec.nt(affected)
    rec.show(dict(cfg=cfg_tag(cfg), reactions=crn_gen.rx_str({"rx": rx}), reused=dirty["reused"], sig_calls=[clean["sig_calls"], dirty["sig_calls"]]))
    for what in ("count", "orbits", "maps", "key"):
        if clean[what] != dirty[what]:
            detail = f"{clean[what]} vs {dirty[what]}" if what in ("count", "orbits") else ""
            raise Violation(
                "id-reuse-" + what,
                f"{where}: result depends on whether a freed address is handed out again to the refinement "
                f"cache key ({dirty['reused']} simulated reuses): {what} differs {detail}",
            )


def body_wl(case, rec):
    """WLCanonicalizer is documented as approximate: only what it documents and what follows from colour refinement
    being isomorphism-invariant is asserted."""
    from math import factorial

    from synkit.CRN.Topo.wl_canon import WLCanonicalizer

    rx, cfg = case["rx"], case["cfg"]
    nkeys, ekeys = cfg_keys(cfg)
    kw = cfg_kwargs(cfg)
    where = _where(rx, cfg)
    H, _ = build(rx, None)
    w = WLCanonicalizer(H, node_attr_keys=nkeys, edge_attr_keys=ekeys, **kw)
    s = w.summary()
    G = w.G
    n = G.number_of_nodes()
    node_ok, edge_ok = R.eq_keys(nkeys), R.eq_keys(ekeys)
    Gc = s["canon_graph"]
    if sorted(Gc.nodes) != list(range(1, n + 1)):
        raise Violation("wl-labels", f"{where}: WL canonical graph is documented to be relabelled 1..N, got {sorted(Gc.nodes)}")
    if Gc.number_of_edges() != G.number_of_edges() or not iso.is_isomorphic(Gc, G, node_ok, edge_ok):
        raise Violation("wl-canon-iso", f"{where}: WL canonical graph is not isomorphic to its view")
    cells = [set(o) for o in s["orbits"]]
    if sorted((x for c in cells for x in c), key=repr) != sorted(G.nodes, key=repr):
        raise Violation("wl-partition", f"{where}: WL cells {cells} are not a partition of the nodes")
    auts = list(iso.isomorphisms(G, G, node_ok, edge_ok))
    for o in iso.orbits_from(auts, list(G.nodes)):
        if not any(set(o) <= c for c in cells):
            raise Violation("wl-splits-orbit", f"{where}: exchangeable nodes {sorted(o)} get different WL colours {cells}")
    est = 1
    for c in cells:
        est *= factorial(len(c))
    if s["automorphism_count"] != est:
        raise Violation("wl-estimate", f"{where}: estimate {s['automorphism_count']} != documented product of factorials {est}")
    if est < len(auts):
        raise AssertionError("oracle bug: product of cell factorials below the group order")
    if sorted(s["color_hist"].values()) != sorted(len(c) for c in cells):
        raise Violation("wl-partition", f"{where}: colour histogram and cells disagree")
    # renamed / reordered copy: same multiset of colours
    names = case["ren"]
    sp = R.species_of(rx)
    vrx = R.reorder(R.rename(rx, dict(zip(sp, names))), case["order"])
    H2, _ = build(vrx, None)
    s2 = WLCanonicalizer(H2, node_attr_keys=nkeys, edge_attr_keys=ekeys, **kw).summary()
    if dict(s2["color_hist"]) != dict(s["color_hist"]):
        raise Violation(
            "wl-rename",
            f"{where} vs renamed {crn_gen.rx_str({'rx': vrx})}: colour histograms differ "
            f"{sorted(s['color_hist'].values())} vs {sorted(s2['color_hist'].values())}",
        )
    rec.label("cfg=" + cfg_tag(cfg), "wl-exact" if len(cells) == len(iso.orbits_from(auts, list(G.nodes))) else "wl-coarser")
    rec.nt(len(auts) > 1)
    rec.show(dict(cfg=cfg_tag(cfg), reactions=crn_gen.rx_str({"rx": rx}), cells=len(cells), aut=len(auts)))


# ----------------------------------------------------------------------------------------------------
# known finding: attribution predicate
# ----------------------------------------------------------------------------------------------------
def id_reuse_defect(case, v, m):
    """True iff the violation is attributed to the recorded defect 'results of CRNCanonicalizer depend on whether the
    address of a freed temporary is reused' (call site CRNCanonicalizer._refine, cache keyed by id() of a temporary):
    either the fault-injection sub-check (clauses id-reuse-*), or a clause of CRNCanonicalizer that failed in a run in
    which a real address reuse inside one _refine call was observed AND that is quiet when id() never repeats a value
    (both established in the body before the clause gets the suffix)."""
    return v.clause.startswith("id-reuse-") or v.clause.endswith(NATURAL)


KNOWN_PREDICATES = {"id_reuse_defect": id_reuse_defect}


# ----------------------------------------------------------------------------------------------------
# generators
# ----------------------------------------------------------------------------------------------------
def _rep_key(rx):
    return sorted((sorted(r.items()), sorted(p.items())) for r, p, _ in rx)


def enum_exhaustive(tier):
    """all networks over {A,B,C}, coefficients 0..2, <= 2 reactions; one representative per species-permutation class
    (the body then applies all 6 permutations, so every network of the slice is visited)."""
    seed = int(os.environ.get("VERIF_SEED", "1") or 1)
    species = ["A", "B", "C"]
    perms = [dict(zip(species, p)) for p in itertools.permutations(species)][1:]
    cfgs = ALL_CFGS[:4] if tier == "quick" else ALL_CFGS[:5]
    step = 40 if tier == "quick" else 1
    i = -1
    for case in crn_gen.enum_networks(species, (0, 1, 2), 2, allow_empty_side=True):
        rx = case["rx"]
        i += 1
        if len(rx) == 2 and step > 1 and i % step != seed % step:
            continue
        k = _rep_key(rx)
        if any(_rep_key(R.rename(rx, mp)) < k for mp in perms):
            continue
        for cfg in cfgs:
            yield {"rx": rx, "cfg": cfg}


# ----------------------------------------------------------------------------------------------------
# the same network OBJECT analysed again after edits (histories): must equal a freshly built network
# ----------------------------------------------------------------------------------------------------
def body_edited_object(case, rec):
    """Analyse a hypergraph, edit it in place (remove + add, add, remove), analyse again after every edit: the
    canonical graph, automorphism count and orbits must equal those of a network built from scratch with the
    same reactions and ids.  Catches analysis state that survives an edit of the analysed object."""
    import synkit.CRN.Topo.canon as canon_mod
    from synkit.CRN.Topo.automorphism import CRNAutomorphism

    cfg = case["cfg"]
    nkeys, ekeys = cfg_keys(cfg)
    kw = cfg_kwargs(cfg)
    H, ids = build(case["rx"])
    model = {i: (dict(r), dict(p), rule) for i, (r, p, rule) in zip(ids, case["rx"])}

    def facts(hg):
        s = canon_mod.CRNCanonicalizer(hg, node_attr_keys=nkeys, edge_attr_keys=ekeys, **kw).summary()
        a = CRNAutomorphism(hg, node_attr_keys=nkeys, **kw).summary(max_count=BIG, timeout_sec=None)
        if a["stopped_early"]:
            raise Inconclusive()
        return (R.graph_key(s["canon_graph"], nkeys, ekeys), s["automorphism_count"], set(R.partition(s["orbits"])), a["automorphism_count"], set(R.partition(a["orbits"])))

    def fresh():
        from synkit.CRN.Hypergraph.hypergraph import CRNHyperGraph

        F = CRNHyperGraph()
        for eid, (r, p, rule) in model.items():
            F.add_rxn(dict(r), dict(p), rule=rule, edge_id=eid)
        return F

    facts(H)  # first analysis (fills whatever the implementation keeps)
    count_preserving = False
    for k, op in enumerate(case["ops"]):
        if not model and op[0] != "add":
            continue
        if op[0] == "swap":
            eid = sorted(model)[op[1] % len(model)]
            r, p, rule = op[2]
            if not r and not p:
                continue
            before = (len(H.species), len(H.edges))
            H.remove_rxn(eid)
            del model[eid]
            e = H.add_rxn(dict(r), dict(p), rule=rule)
            model[e.id] = (dict(r), dict(p), rule)
            count_preserving |= before == (len(H.species), len(H.edges))
        elif op[0] == "add":
            r, p, rule = op[1]
            if not r and not p:
                continue
            e = H.add_rxn(dict(r), dict(p), rule=rule)
            model[e.id] = (dict(r), dict(p), rule)
        elif op[0] == "rm":
            if len(model) <= 1:
                continue
            eid = sorted(model)[op[1] % len(model)]
            H.remove_rxn(eid)
            del model[eid]
        if k % 2 == case.get("phase", 0) % 2 or k == len(case["ops"]) - 1:
            got, want = facts(H), facts(fresh())
            names = ("canonical graph", "automorphism_count", "orbits", "CRNAutomorphism count", "CRNAutomorphism orbits")
            for name, g, w in zip(names, got, want):
                if g != w:
                    raise Violation(
                        "edited-object",
                        f"{cfg_tag(cfg)}: after edit {k + 1} ({op[0]}) the {name} of the edited network object differs from a freshly built "
                        f"network with the same reactions {crn_gen.rx_str({'rx': list(model.values())})}",
                    )
    rec.nt(count_preserving)
    rec.label(cfg_tag(cfg), "count-preserving-edit" if count_preserving else "counts-changed")
    rec.show(dict(reactions=crn_gen.rx_str(case), ops=[o[0] for o in case["ops"]], cfg=cfg_tag(cfg)))


@st.composite
def edited_cases(draw, tier=None):
    sp = crn_gen.SPECIES[:4]
    rxn = crn_gen.rxn_strategy(sp, 2, True, ["r", "q"], 2)
    rx = draw(st.lists(rxn, min_size=2, max_size=4))
    op = st.one_of(
        st.tuples(st.just("swap"), st.integers(0, 5), rxn).map(list),
        st.tuples(st.just("swap"), st.integers(0, 5), rxn).map(list),
        st.tuples(st.just("add"), rxn).map(list),
        st.tuples(st.just("rm"), st.integers(0, 5)).map(list),
    )
    return {"rx": rx, "cfg": draw(_cfg_strategy_labelled()), "ops": draw(st.lists(op, min_size=1, max_size=5)), "phase": draw(st.integers(0, 1))}


# node labels (species names, rule labels) as part of the structure: a documented choice of node_attr_keys.  Species
# renaming is then NOT a representation change (names are labels); reaction order and reaction ids still are.
LABELLED_CFGS = [{"view": "bip", "stoich": True, "nkeys": "kind+label"}, {"view": "sp", "nkeys": "kind+label"}]


def _cfg_strategy():
    return st.sampled_from(ALL_CFGS)


def _cfg_strategy_labelled():
    return st.sampled_from(ALL_CFGS + LABELLED_CFGS + LABELLED_CFGS)


@st.composite
def random_cases(draw, tier):
    net = draw(
        st.one_of(
            crn_gen.net_strategy(max_species=6, max_rxn=5, max_coef=3, rules=["r", "q"], min_rxn=2),
            crn_gen.net_strategy(max_species=4, max_rxn=5, max_coef=2, rules=["r"], max_terms=2, min_rxn=2),
            crn_gen.net_strategy(max_species=3, max_rxn=4, max_coef=1, rules=["r"], max_terms=2),
        )
    )
    rx = net["rx"]
    cfg = draw(_cfg_strategy_labelled())
    names = draw(st.permutations(R.NAME_POOL))[:8]
    order = draw(st.lists(st.integers(0, 5), min_size=6, max_size=6))
    ids = draw(st.one_of(st.none(), st.permutations(R.ID_POOL).map(lambda p: list(p)[:6])))
    ids2 = draw(st.one_of(st.none(), st.permutations(R.ID_POOL).map(lambda p: list(p)[:6])))
    edit = draw(
        st.one_of(
            st.none(),
            st.tuples(st.just("coef"), st.integers(0, 4), st.integers(0, 1), st.integers(0, 2), st.integers(1, 3)).map(list),
            st.tuples(st.just("move"), st.integers(0, 4), st.integers(0, 1), st.integers(0, 2), st.sampled_from(crn_gen.SPECIES[:7])).map(list),
            st.tuples(st.just("flip"), st.integers(0, 4)).map(list),
            st.tuples(st.just("rule"), st.integers(0, 4), st.sampled_from(["r", "q"])).map(list),
            st.tuples(st.just("dup"), st.integers(0, 4)).map(list),
            st.tuples(st.just("drop"), st.integers(0, 4)).map(list),
        )
    )
    return {"rx": rx, "cfg": cfg, "ren": list(names), "order": order, "ids": ids, "ids2": ids2, "edit": edit}


@st.composite
def symmetric_nets(draw):
    """networks made symmetric on purpose: a small block repeated under a species bijection, optionally linked."""
    block = draw(crn_gen.net_strategy(max_species=3, max_rxn=2, max_coef=2, rules=["r"], max_terms=2))["rx"]
    sp = R.species_of(block)
    other = dict(zip(sp, ["D", "E", "F"]))
    share = draw(st.lists(st.sampled_from(sp), max_size=1, unique=True))
    for s in share:
        other[s] = s
    rx = R.copy_rx(block) + R.rename(block, other)
    if draw(st.booleans()) and len(rx) < 5:
        rx.append(draw(crn_gen.rxn_strategy(["A", "B", "C", "D", "E", "F"], 2, True, ["r"], 2)))
    return rx


@st.composite
def faultinj_cases(draw, tier):
    rx = draw(
        st.one_of(
            symmetric_nets(),
            crn_gen.net_strategy(max_species=6, max_rxn=5, max_coef=2, rules=["r"], max_terms=2).map(lambda c: c["rx"]),
            st.sampled_from([family_rx(k, m, c) for k, m, c in FAMILIES if k in ("chain", "ring", "tree", "star", "almostring") and (k, m, c) != ("tree", 7, 2)]),
        )
    )
    cfg = draw(st.sampled_from(ALL_CFGS[:4]))
    flags = draw(st.lists(st.booleans(), min_size=1, max_size=24))
    return {"rx": rx, "cfg": cfg, "flags": flags}


@st.composite
def wl_cases(draw, tier):
    rx = draw(st.one_of(symmetric_nets(), crn_gen.net_strategy(max_species=6, max_rxn=5, max_coef=3, rules=["r", "q"]).map(lambda c: c["rx"])))
    cfg = draw(st.sampled_from(ALL_CFGS[:4] + ALL_CFGS[5:]))
    names = draw(st.permutations(R.NAME_POOL))[:8]
    order = draw(st.lists(st.integers(0, 5), min_size=6, max_size=6))
    return {"rx": rx, "cfg": cfg, "ren": list(names), "order": order}


@st.composite
def random_symmetric_cases(draw, tier):
    case = draw(random_cases(tier))
    case["rx"] = draw(symmetric_nets())
    return case


def strat_random(tier):
    return st.one_of(random_cases(tier), random_symmetric_cases(tier))


SUBS = [
    Sub(
        "families",
        body_family,
        enum=enum_families,
        shards={"quick": 16, "thorough": 16},
        doc="rings / stars / duplicated reactions / disjoint copies / trees under pseudo-random renamings, orders and ids",
    ),
    Sub(
        "exhaustive",
        body_exhaustive,
        enum=enum_exhaustive,
        exhaustive=("thorough",),
        shards={"quick": 16, "thorough": 16},
        doc="3 species, <= 2 reactions, coefficients 0..2, all species permutations and reaction orders",
    ),
    Sub(
        "random",
        body_random,
        strategy=strat_random,
        examples={"quick": 4000, "thorough": 60000},
        shards={"quick": 16, "thorough": 16},
        doc="Hypothesis networks <= 6 species / 5 reactions with renaming, reordering, re-id and one-step edits",
    ),
    Sub(
        "faultinj",
        body_faultinj,
        strategy=faultinj_cases,
        examples={"quick": 3000, "thorough": 40000},
        shards={"quick": 16, "thorough": 16},
        doc="simulated reuse of freed addresses for the id()-keyed refinement cache",
    ),
    Sub(
        "edited_object",
        body_edited_object,
        strategy=edited_cases,
        examples={"quick": 3000, "thorough": 40000},
        shards={"quick": 16, "thorough": 16},
        doc="histories: analyse, edit the same hypergraph object in place (remove+add / add / remove), analyse again; must equal a freshly built network",
    ),
    Sub(
        "wl",
        body_wl,
        strategy=wl_cases,
        examples={"quick": 1500, "thorough": 20000},
        shards={"quick": 8, "thorough": 16},
        doc="WLCanonicalizer: documented relabelling, cells are unions of orbits, colours independent of names",
    ),
]
