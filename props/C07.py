"""C07 - isomorphism verdicts and embeddings are correct; pre-filters and query history never change them.

Oracle: brute-force bijection / injection search written from the definitions (vlib/oracles/iso.py, cross-checked
against the literal cartesian enumeration on small inputs); every SynKit answer is compared with it in both
directions, every filter flag is compared on/off, and every answer inside a history of queries is compared with
the answer of a fresh engine on fresh copies of the same graphs.
"""
from __future__ import annotations

import itertools
import os

from hypothesis import assume
from hypothesis import strategies as st

from vlib import c0607_common as cm
from vlib import graph_gen
from vlib.runner import Sub, Violation

PROPERTY = "C07"
RULE = (
    "pairs: every ordered pair of isomorphism-class representatives of graphs on <= 4 nodes over element {C,N} x "
    "order {1,2} plus every ordered pair on <= 3 nodes with hcount {0,1} added (seeded slices in the quick tier); "
    "Hypothesis pairs <= 8 nodes where the second graph is a relabelled copy, a one-edit neighbour (element / "
    "charge / hcount / aromatic / order / ring / edge added or removed), an hcount-shifted copy, a strict "
    "sub-pattern (induced or with edges dropped), a super-graph or independent; attribute selections, absent "
    "charge (documented default), every filter flag on and off, induced and monomorphism mode, max_mappings. "
    "histories: JSON lists of isomorphic / get_mappings queries by up to 4 engines (different node_attrs, "
    "wl1_filter, edge_attrs) on a shared pool of graph objects; exhaustive to depth 2 (3 in thorough) over a "
    "36-query alphabet and Hypothesis lists up to 30 queries. Non-trivial pair = the graphs differ only in "
    "attributes the engine under test ignores (isomorphic for it, not isomorphic on all attributes), or the second "
    "graph is strictly smaller than the first and contained in it; non-trivial history = a WL-filtered engine "
    "queries a graph object already seen by a WL-filtered engine with another attribute selection; distinct by "
    "the JSON case."
)
ASSUMPTIONS = [
    "isomorphic(g1, g2): the first argument plays the host role of the documented hcount rule (g1.hcount >= g2.hcount)",
    "get_mappings(host, pattern) returns pattern->host maps (as the repository's own test requires); a returned map "
    "only has to be a label-preserving monomorphism, and one must be returned whenever the pattern is an induced "
    "sub-pattern (the weaker reading on both sides); how many are returned is bounded by max_mappings only",
    "graphs are simple undirected networkx Graphs with >= 1 node, never modified between queries (the WL cache is "
    "documented to go stale under in-place edits)",
    "selected attributes are present on every node/edge for GraphMatcherEngine; SubgraphMatch / graph_morphism use "
    "their documented defaults ('*', 0) for absent element / charge",
]


# ------------------------------------------------------------------ reference predicates
def engine_node_ok(node_attrs):
    """f(first-graph data, second-graph data) for isomorphic(g1, g2)."""

    def f(d1, d2):
        return all(d1.get(k) == d2.get(k) for k in node_attrs) and d1.get("hcount", 0) >= d2.get("hcount", 0)

    return f


def engine_pattern_ok(node_attrs):
    """f(pattern data, host data) for get_mappings(host, pattern)."""

    def f(pd, hd):
        return all(pd.get(k) == hd.get(k) for k in node_attrs) and hd.get("hcount", 0) >= pd.get("hcount", 0)

    return f


def attrs_eq(keys):
    def f(a, b):
        return all(a.get(k) == b.get(k) for k in keys)

    return f


def default_eq(names, defaults):
    def f(a, b):
        return all(a.get(k, d) == b.get(k, d) for k, d in zip(names, defaults))

    return f


DEFAULTS = {"element": "*", "charge": 0}


def valid_embedding(m, pattern, host, node_ok, edge_ok):
    """None if m is an injective label-preserving edge-preserving map pattern->host, else the reason."""
    if not isinstance(m, dict) or set(m) != set(pattern.nodes):
        return f"keys {sorted(m) if isinstance(m, dict) else m!r} are not the pattern nodes {sorted(pattern.nodes)}"
    if len(set(m.values())) != len(m) or not set(m.values()) <= set(host.nodes):
        return f"values {sorted(m.values())} are not distinct host nodes"
    for p, h in m.items():
        if not node_ok(pattern.nodes[p], host.nodes[h]):
            return f"pattern node {p} {dict(pattern.nodes[p])} mapped to host node {h} {dict(host.nodes[h])}"
    for u, v, d in pattern.edges(data=True):
        if not host.has_edge(m[u], m[v]) or not edge_ok(d, host.edges[m[u], m[v]]):
            return f"pattern edge {u}-{v} {d} has no equal host edge {m[u]}-{m[v]}"
    return None


def mk_engine(cfg, wl=None):
    from synkit.Graph.Matcher.graph_matcher import GraphMatcherEngine

    return GraphMatcherEngine(
        node_attrs=list(cfg["node_attrs"]),
        edge_attrs=list(cfg["edge_attrs"]),
        wl1_filter=cfg.get("wl1_filter", False) if wl is None else wl,
        max_mappings=cfg.get("max_mappings", None),
    )


def _summary(g):
    return f"[{' '.join(str(n) + ':' + str(d.get('element')) + ('%+d' % d['charge'] if d.get('charge') else '') + ('H%d' % d['hcount'] if d.get('hcount') else '') for n, d in g.nodes(data=True))} | " + " ".join(
        f"{u}-{v}:{d.get('order')}" for u, v, d in g.edges(data=True)
    ) + "]"


# ------------------------------------------------------------------ the battery run on an ordered pair (A, B)
def check_engine_iso(A, B, cfg, tag=""):
    """(i)+(iv): isomorphic(A, B) against the definition, WL filter on == off.  Returns the reference verdict."""
    nok, eok = engine_node_ok(cfg["node_attrs"]), attrs_eq(cfg["edge_attrs"])
    ref = cm.exists_iso(A, B, nok, eok)
    got = mk_engine(cfg, wl=False).isomorphic(A.copy(), B.copy())
    if bool(got) != ref:
        raise Violation(
            "iso-verdict",
            f"{tag}isomorphic({_summary(A)}, {_summary(B)}) with node_attrs={cfg['node_attrs']} edge_attrs={cfg['edge_attrs']} "
            f"answered {got}, a bijection preserving them (first.hcount >= second.hcount) {'exists' if ref else 'does not exist'}",
        )
    got_wl = mk_engine(cfg, wl=True).isomorphic(A.copy(), B.copy())
    if bool(got_wl) != bool(got):
        raise Violation(
            "filter-wl1-iso",
            f"{tag}isomorphic({_summary(A)}, {_summary(B)}) node_attrs={cfg['node_attrs']}: {got} with wl1_filter=False, {got_wl} with wl1_filter=True",
        )
    return ref


def check_engine_mappings(H, P, cfg, tag=""):
    """(iii)+(iv): get_mappings(host, pattern).  Returns (mono-contained, induced-contained)."""
    nok, eok = engine_pattern_ok(cfg["node_attrs"]), attrs_eq(cfg["edge_attrs"])
    induced = cm.exists_mono(P, H, nok, eok, induced=True)
    mono = induced or cm.exists_mono(P, H, nok, eok, induced=False)
    results = {}
    for wl in (False, True):
        for mm in (None, cfg.get("max_mappings", 1) or 1):
            where = (
                f"{tag}get_mappings(host={_summary(H)}, pattern={_summary(P)}) node_attrs={cfg['node_attrs']} "
                f"edge_attrs={cfg['edge_attrs']} wl1_filter={wl} max_mappings={mm}"
            )
            res = mk_engine(dict(cfg, max_mappings=mm), wl=wl).get_mappings(H.copy(), P.copy())
            if not isinstance(res, list):
                raise Violation("mappings-shape", f"{where}: returned {type(res).__name__}")
            for m in res:
                why = valid_embedding(m, P, H, nok, eok)
                if why:
                    raise Violation("mappings-invalid", f"{where}: {m!r} is not a pattern->host embedding: {why}")
            keys = [cm.key_of(m) for m in res]
            if len(set(keys)) != len(keys):
                raise Violation("mappings-duplicates", f"{where}: duplicate embeddings in {res!r}")
            if mm is not None and len(res) > mm:
                raise Violation("mappings-limit", f"{where}: {len(res)} embeddings returned")
            if induced and not res:
                smaller = "strictly smaller than" if P.number_of_nodes() < H.number_of_nodes() else "as large as"
                raise Violation(
                    "mappings-missed" if not wl else "filter-wl1-mappings",
                    f"{where}: nothing returned although the pattern ({smaller} the host) is an induced sub-pattern",
                )
            results[wl, mm] = set(keys)
    same_size = H.number_of_nodes() == P.number_of_nodes() and H.number_of_edges() == P.number_of_edges()
    for mm in sorted({k[1] for k in results}, key=repr):
        off, on = results[False, mm], results[True, mm]
        # the whole set is only enumerated without a limit and off the single-answer isomorphism shortcut;
        # otherwise which embeddings are reported is free, their number is not
        if (off != on) if (mm is None and not same_size) else (len(off) != len(on)):
            raise Violation(
                "filter-wl1-mappings",
                f"{tag}get_mappings(host={_summary(H)}, pattern={_summary(P)}) node_attrs={cfg['node_attrs']} max_mappings={mm}: "
                f"{len(off)} embedding(s) with wl1_filter=False, {len(on)} with wl1_filter=True",
            )
    return mono, induced


def check_boolean_sub(P, H, names, edge_attribute, tag=""):
    """(ii)+(iv): SubgraphMatch.subgraph_isomorphism / is_subgraph / graph_morphism.subgraph_isomorphism."""
    from synkit.Graph.Matcher import graph_morphism as gmo
    from synkit.Graph.Matcher.subgraph_matcher import SubgraphMatch

    defaults = [DEFAULTS[k] for k in names]
    nok = default_eq(names, defaults)
    eok = default_eq([edge_attribute], [None]) if edge_attribute else (lambda a, b: True)
    out = {}
    for check_type in ("induced", "monomorphism"):
        ref = cm.exists_mono(P, H, nok, eok, induced=(check_type == "induced"))
        out[check_type] = ref
        apis = (
            ("SubgraphMatch.subgraph_isomorphism", lambda uf: SubgraphMatch.subgraph_isomorphism(P.copy(), H.copy(), list(names), list(defaults), edge_attribute, uf, check_type)),
            ("SubgraphMatch.is_subgraph", lambda uf: SubgraphMatch.is_subgraph(P.copy(), H.copy(), list(names), list(defaults), edge_attribute, uf, check_type, "nx")),
            ("graph_morphism.subgraph_isomorphism", lambda uf: gmo.subgraph_isomorphism(P.copy(), H.copy(), list(names), list(defaults), edge_attribute, uf, check_type)),
        )
        for name, fn in apis:
            where = f"{tag}{name}(child={_summary(P)}, parent={_summary(H)}, {names}, edge_attribute={edge_attribute!r}, check_type={check_type!r})"
            plain = fn(False)
            if bool(plain) != ref:
                raise Violation(
                    "sub-verdict",
                    f"{where} answered {plain}; the child is{'' if ref else ' not'} {check_type}-contained in the parent",
                )
            filt = fn(True)
            if bool(filt) != bool(plain):
                raise Violation("filter-use_filter", f"{where}: {plain} with use_filter=False, {filt} with use_filter=True")
    return out


def check_graph_isomorphism(A, B, tag=""):
    from synkit.Graph.Matcher import graph_morphism as gmo

    ref = cm.exists_iso(A, B, default_eq(["element", "charge"], ["*", 0]), default_eq(["order"], [1]))
    got = gmo.graph_isomorphism(A.copy(), B.copy(), use_defaults=True)
    if bool(got) != ref:
        raise Violation("graph_isomorphism", f"{tag}graph_isomorphism({_summary(A)}, {_summary(B)}, use_defaults=True) answered {got}, reference {ref}")
    ref0 = cm.exists_iso(A, B, lambda a, b: True, lambda a, b: True)
    got0 = gmo.graph_isomorphism(A.copy(), B.copy())
    if bool(got0) != ref0:
        raise Violation("graph_isomorphism", f"{tag}graph_isomorphism({_summary(A)}, {_summary(B)}) without matchers answered {got0}, unlabelled reference {ref0}")


def check_prefilter(H, P, cfg, tag=""):
    """(iv) SubgraphSearchEngine pre_filter on == off (sizes keep its estimate guard out of reach)."""
    from synkit.Graph.Matcher.subgraph_matcher import SubgraphSearchEngine

    for strategy in ("all", "comp"):
        sets = []
        for pf in (False, True):
            res = SubgraphSearchEngine.find_subgraph_mappings(
                H.copy(), P.copy(), node_attrs=list(cfg["node_attrs"]), edge_attrs=list(cfg["edge_attrs"]), strategy=strategy, strict_cc_count=False, pre_filter=pf
            )
            sets.append(set(cm.key_of(m) for m in res))
        if sets[0] != sets[1]:
            raise Violation(
                "filter-pre_filter",
                f"{tag}find_subgraph_mappings(host={_summary(H)}, pattern={_summary(P)}, strategy={strategy}): {len(sets[0])} mappings with pre_filter=False, {len(sets[1])} with pre_filter=True",
            )


def run_pair(A, B, cfgs, names, edge_attribute, rec, full_ok=None, extras=True):
    """Everything on the ordered pair: A = first / host / parent, B = second / pattern / child.
    extras: also the swapped isomorphism query and the SubgraphSearchEngine pre_filter differential (the exhaustive
    slice enumerates ordered pairs, and C06 runs the pre-filter against the reference exhaustively)."""
    nontrivial = False
    for cfg in cfgs:
        ref_iso = check_engine_iso(A, B, cfg)
        mono, induced = check_engine_mappings(A, B, cfg)
        if extras:
            check_engine_iso(B, A, cfg, tag="(swapped) ")
            check_prefilter(A, B, cfg)
        if full_ok is not None and ref_iso and not full_ok:
            nontrivial = True
            rec.label("iso-only-for-ignoring-engine")
        if mono and B.number_of_nodes() < A.number_of_nodes():
            nontrivial = True
        rec.label("engine-iso" if ref_iso else "engine-not-iso")
        rec.label("contained-induced" if induced else "contained-mono-only" if mono else "not-contained")
    sub = check_boolean_sub(B, A, names, edge_attribute)
    if sub["monomorphism"] and B.number_of_nodes() < A.number_of_nodes():
        nontrivial = True
        rec.label("strict-subpattern-contained")
    if sub["monomorphism"] and not sub["induced"]:
        rec.label("mono-not-induced")
    check_graph_isomorphism(A, B)
    rec.nt(nontrivial)


# ------------------------------------------------------------------ exhaustive pairs
EX_EDGE = [dict(order=1), dict(order=2)]
EX_NODE = [dict(element="C"), dict(element="N")]
EX_NODE_H = [dict(element=e, hcount=h) for e in ("C", "N") for h in (0, 1)]
EX_CFGS = [
    {"node_attrs": ["element"], "edge_attrs": ["order"]},
    {"node_attrs": ["element"], "edge_attrs": []},
]


def _pool(node_labels, max_n, first_id):
    return [g for n in range(1, max_n + 1) for g in cm.class_reps(n, node_labels, EX_EDGE, first_id=first_id)]


def enum_pairs(tier):
    seed = int(os.environ.get("VERIF_SEED", "1") or 1)
    full = tier == "thorough"
    # slice 1: <= 4 nodes, element x order
    firsts, seconds = _pool(EX_NODE, 4, 1), _pool(EX_NODE, 4, 11)
    small = sum(len(cm.class_reps(n, EX_NODE, EX_EDGE)) for n in (1, 2, 3))
    t = 0
    for i, a in enumerate(firsts):
        for j, b in enumerate(seconds):
            if full or (i < small and j < small) or (t + seed) % 16 == 0:
                yield {"a": a, "b": b}
            t += 1
    # slice 2: <= 3 nodes, element x hcount x order
    firsts, seconds = _pool(EX_NODE_H, 3, 1), _pool(EX_NODE_H, 3, 11)
    for i, a in enumerate(firsts):
        for j, b in enumerate(seconds):
            if full or (t + seed) % 8 == 0:
                yield {"a": a, "b": b}
            t += 1


def body_pair_small(case, rec):
    A, B = cm.to_nx(case["a"]), cm.to_nx(case["b"])
    full_ok = cm.exists_iso(A, B, engine_node_ok(["element"]), attrs_eq(["order"]))
    run_pair(A, B, EX_CFGS, ["element", "charge"], "order", rec, full_ok=full_ok, extras=False)
    rec.label(f"n={A.number_of_nodes()}x{B.number_of_nodes()}")


# ------------------------------------------------------------------ random pairs
NODE_ST = cm.node_attrs_st(elements=("C", "C", "N", "O"), charges=(0, 0, 0, -1, 1), hcounts=(0, 0, 1, 2), hcount_optional=True, aromatic=(False, False, True))
EDGE_ST = cm.edge_attrs_st(orders=(1, 1, 2), ring=(False, False, True))
NODE_SEL = [["element"], ["element", "charge"], ["element", "charge"], ["element", "charge", "aromatic"], ["charge"], []]
NODE_SEL_NOCHARGE = [["element"], ["element", "aromatic"], []]
EDGE_SEL = [["order"], ["order"], ["order", "ring"], []]
ALL_NODE_KEYS = ["element", "charge", "aromatic"]
ALL_EDGE_KEYS = ["order", "ring"]


@st.composite
def random_pair(draw):
    a = draw(graph_gen.graphs(min_nodes=1, max_nodes=8, node_attrs=NODE_ST, edge_attrs=EDGE_ST, max_components=2, id_pool=40))
    sparse = draw(st.sampled_from([False, False, False, True]))
    if sparse:
        for _, d in a["nodes"]:
            if draw(st.booleans()):
                d.pop("charge", None)
    kind = draw(st.sampled_from(["copy", "edit", "edit", "hshift", "sub", "sub", "independent"]))
    note = ""
    if kind == "copy":
        b = a
    elif kind == "edit":
        b, note = draw(
            graph_gen.one_edit(
                a,
                node_alts={"element": ["C", "N", "O"], "charge": [0, -1, 1], "hcount": [0, 1, 2], "aromatic": [False, True]},
                edge_alts={"order": [1, 2, 3], "ring": [False, True]},
            )
        )
    elif kind == "hshift":
        b = {"nodes": [[n, dict(d)] for n, d in a["nodes"]], "edges": a["edges"]}
        for _, d in b["nodes"]:
            s = draw(st.sampled_from([0, 0, 1, -1]))
            if s:
                d["hcount"] = max(0, d.get("hcount", 0) + s)
        note = "hcounts shifted"
    elif kind == "sub":
        b, dropped = draw(cm.sub_pattern(a))
        note = f"sub-pattern, {dropped} edge(s) dropped"
    else:
        b = draw(graph_gen.graphs(min_nodes=1, max_nodes=8, node_attrs=NODE_ST, edge_attrs=EDGE_ST, max_components=2, id_pool=40))
        if sparse:
            for _, d in b["nodes"]:
                if draw(st.booleans()):
                    d.pop("charge", None)
    if kind != "independent":
        b, _ = draw(graph_gen.relabelled(b, id_pool=60))
    swap = draw(st.sampled_from([False, False, False, True]))
    if swap:
        a, b = b, a
    cfg = {
        "node_attrs": draw(st.sampled_from(NODE_SEL_NOCHARGE if sparse else NODE_SEL)),
        "edge_attrs": draw(st.sampled_from(EDGE_SEL)),
        "max_mappings": draw(st.sampled_from([1, 2, 5])),
    }
    names = draw(st.sampled_from([["element", "charge"], ["element", "charge"], ["element"], ["charge"]]))
    edge_attribute = draw(st.sampled_from(["order", "order", "ring", ""]))
    return {"a": a, "b": b, "kind": kind + ("/swapped" if swap else ""), "note": note, "sparse": sparse, "cfg": cfg, "names": names, "edge_attribute": edge_attribute}


@st.composite
def large_subpattern_pair(draw):
    """Low-entropy hosts with 6-9 atoms (mostly one element, rings allowed) and a connected sub-pattern of 4-6 atoms,
    relabelled: several pattern atoms share their base label and compete for the same host atoms - the shape on
    which a containment pre-filter that decides by a greedy assignment goes wrong."""
    na = cm.node_attrs_st(elements=("C", "C", "C", "O"), charges=(0,), hcounts=(0,), hcount_optional=False, aromatic=(False,))
    ea = cm.edge_attrs_st(ring=None)
    a = draw(graph_gen.graphs(min_nodes=6, max_nodes=9, node_attrs=na, edge_attrs=ea, connected=True, id_pool=40, extra_edge_p=draw(st.sampled_from([0.1, 0.3]))))
    b, dropped = draw(cm.sub_pattern(a, min_nodes=4, drop_edges=True))
    assume(4 <= len(b["nodes"]) < len(a["nodes"]))
    b, _ = draw(graph_gen.relabelled(b, id_pool=60))
    cfg = {"node_attrs": ["element", "charge"], "edge_attrs": draw(st.sampled_from(EDGE_SEL)), "max_mappings": draw(st.sampled_from([1, 5]))}
    return {"a": a, "b": b, "kind": "large-sub", "note": f"low-entropy host, sub-pattern of {len(b['nodes'])} atoms, {dropped} edge(s) dropped", "sparse": False, "cfg": cfg,
            "names": ["element", "charge"], "edge_attribute": "order"}


def strat_pairs(tier):
    return random_pair()


def body_pair_random(case, rec):
    A, B = cm.to_nx(case["a"]), cm.to_nx(case["b"])
    cfg = case["cfg"]
    node_keys = [k for k in ALL_NODE_KEYS if not (case["sparse"] and k == "charge")]
    full_ok = cm.exists_iso(A, B, engine_node_ok(node_keys), attrs_eq(ALL_EDGE_KEYS))
    run_pair(A, B, [cfg], case["names"], case["edge_attribute"], rec, full_ok=full_ok)
    # relabelling either argument never changes the verdict: the second graph of a copy is a relabelled first
    rec.label("kind=" + case["kind"])
    if case["sparse"]:
        rec.label("absent-charge")
    rec.show(dict(first=_summary(A), second=_summary(B), kind=case["kind"], note=case["note"], cfg=cfg))


@st.composite
def relabel_triple(draw):
    base = draw(random_pair())
    a2, _ = draw(graph_gen.relabelled(base["a"], id_pool=80))
    b2, _ = draw(graph_gen.relabelled(base["b"], id_pool=80))
    return dict(base, a2=a2, b2=b2)


def strat_relabel(tier):
    return relabel_triple()


def body_relabel(case, rec):
    """(i)+(ii)+(iii) metamorphic: relabelling (new ids, new insertion order, flipped edges) either argument."""
    from synkit.Graph.Matcher import graph_morphism as gmo
    from synkit.Graph.Matcher.subgraph_matcher import SubgraphMatch

    A, B, A2, B2 = (cm.to_nx(case[k]) for k in ("a", "b", "a2", "b2"))
    cfg, names, ea = case["cfg"], case["names"], case["edge_attribute"]
    defaults = [DEFAULTS[k] for k in names]
    variants = [("second relabelled", A, B2), ("first relabelled", A2, B), ("both relabelled", A2, B2)]
    for wl in (False, True):
        base = mk_engine(cfg, wl=wl).isomorphic(A.copy(), B.copy())
        for what, X, Y in variants:
            got = mk_engine(cfg, wl=wl).isomorphic(X.copy(), Y.copy())
            if bool(got) != bool(base):
                raise Violation("relabel-iso", f"isomorphic({_summary(A)}, {_summary(B)}) = {base} but {got} with the {what}: ({_summary(X)}, {_summary(Y)}) wl1_filter={wl} node_attrs={cfg['node_attrs']}")
        base_m = mk_engine(cfg, wl=wl).get_mappings(A.copy(), B.copy())
        for what, X, Y in variants:
            got_m = mk_engine(cfg, wl=wl).get_mappings(X.copy(), Y.copy())
            if bool(got_m) != bool(base_m):
                raise Violation("relabel-mappings", f"get_mappings(host={_summary(A)}, pattern={_summary(B)}) finds {len(base_m)} but {len(got_m)} with the {what}: ({_summary(X)}, {_summary(Y)}) wl1_filter={wl}")
    for uf in (False, True):
        for check_type in ("induced", "mono"):
            for name, fn in (("SubgraphMatch.subgraph_isomorphism", SubgraphMatch.subgraph_isomorphism), ("graph_morphism.subgraph_isomorphism", gmo.subgraph_isomorphism)):
                base = fn(B.copy(), A.copy(), list(names), list(defaults), ea, uf, check_type)
                for what, X, Y in variants:
                    got = fn(Y.copy(), X.copy(), list(names), list(defaults), ea, uf, check_type)
                    if bool(got) != bool(base):
                        raise Violation(
                            "relabel-sub" if not uf else "filter-use_filter",
                            f"{name}(child={_summary(B)}, parent={_summary(A)}, use_filter={uf}, {check_type}) = {base} but {got} with the {what}: child={_summary(Y)}, parent={_summary(X)}",
                        )
    contained = cm.exists_mono(B, A, engine_pattern_ok(cfg["node_attrs"]), attrs_eq(cfg["edge_attrs"]))
    rec.nt(contained)
    rec.label("kind=" + case["kind"], "contained" if contained else "not-contained")


# ------------------------------------------------------------------ (v) histories
def run_history(case, rec):
    """case = {"graphs": [...], "engines": [cfg...], "ops": [[kind, engine, i, j], ...]}.  One live object per graph and
    per engine; every answer must equal the answer of a fresh engine on fresh copies and the brute-force answer."""
    pool = [cm.to_nx(g) for g in case["graphs"]]
    snaps = [cm.snapshot(g) for g in pool]
    engines = [mk_engine(c) for c in case["engines"]]
    seen = {}  # graph index -> set of node_attrs selections of WL engines that touched it
    memo = {}
    nontrivial = False
    for step, op in enumerate(case["ops"]):
        kind, e, i, j = op
        cfg = case["engines"][e]
        key = (kind, e, i, j)
        sel = tuple(cfg["node_attrs"])
        if cfg.get("wl1_filter"):
            for g in (i, j):
                if any(s != sel for s in seen.get(g, ())):
                    nontrivial = True
                    rec.label("shared-object-other-selection")
        where = f"step {step}: engine {e} (node_attrs={cfg['node_attrs']}, edge_attrs={cfg['edge_attrs']}, wl1_filter={cfg.get('wl1_filter')}) {kind}(g{i}={_summary(pool[i])}, g{j}={_summary(pool[j])})"
        if kind == "iso":
            got = bool(engines[e].isomorphic(pool[i], pool[j]))
            if key not in memo:
                fresh = bool(mk_engine(cfg).isomorphic(pool[i].copy(), pool[j].copy()))
                ref = cm.exists_iso(pool[i], pool[j], engine_node_ok(cfg["node_attrs"]), attrs_eq(cfg["edge_attrs"]))
                memo[key] = (fresh, ref)
            fresh, ref = memo[key]
            if got != fresh:
                raise Violation("history-iso", f"{where} answered {got} after {step} earlier queries, a fresh engine on fresh copies answers {fresh}")
            if got != ref:
                raise Violation("iso-verdict", f"{where} answered {got}, the definition gives {ref}")
        else:
            res = engines[e].get_mappings(pool[i], pool[j])
            got = sorted(cm.key_of(m) for m in res)
            if key not in memo:
                fresh = sorted(cm.key_of(m) for m in mk_engine(cfg).get_mappings(pool[i].copy(), pool[j].copy()))
                nok, eok = engine_pattern_ok(cfg["node_attrs"]), attrs_eq(cfg["edge_attrs"])
                memo[key] = (fresh, cm.exists_mono(pool[j], pool[i], nok, eok, induced=True))
            fresh, induced = memo[key]
            same_size = pool[i].number_of_nodes() == pool[j].number_of_nodes() and pool[i].number_of_edges() == pool[j].number_of_edges()
            complete = cfg.get("max_mappings") is None and not same_size
            if (got != fresh) if complete else (len(got) != len(fresh)):
                raise Violation("history-mappings", f"{where} returned {len(got)} embedding(s) after {step} earlier queries, a fresh engine on fresh copies returns {len(fresh)}")
            nok, eok = engine_pattern_ok(cfg["node_attrs"]), attrs_eq(cfg["edge_attrs"])
            for m in res:
                why = valid_embedding(m, pool[j], pool[i], nok, eok)
                if why:
                    raise Violation("mappings-invalid", f"{where}: {m!r}: {why}")
            if induced and not res:
                raise Violation("mappings-missed", f"{where}: nothing returned although g{j} is an induced sub-pattern of g{i}")
        if cfg.get("wl1_filter"):
            for g in (i, j):
                seen.setdefault(g, set()).add(sel)
    for k, g in enumerate(pool):
        if cm.snapshot(g) != snaps[k]:
            raise Violation("input-mutated", f"graph g{k} was modified by the queries")
    rec.nt(nontrivial)
    rec.label(f"queries>={min(len(case['ops']) // 5 * 5, 30)}")


# fixed pool for the exhaustive histories: charge is what the engines disagree about
def _g(nodes, edges):
    return {"nodes": [[i, dict(element=e, charge=c)] for i, e, c in nodes], "edges": [[u, v, dict(order=o)] for u, v, o in edges]}


H_GRAPHS = [
    _g([(1, "C", 0), (2, "C", -1), (3, "O", 0)], [(1, 2, 1), (2, 3, 1)]),
    _g([(7, "O", 0), (5, "C", 0), (9, "C", 0)], [(5, 7, 1), (9, 5, 1)]),
    _g([(4, "C", 0), (6, "O", 0)], [(4, 6, 1)]),
]
H_ENGINES = [
    {"node_attrs": ["element", "charge"], "edge_attrs": ["order"], "wl1_filter": True, "max_mappings": None},
    {"node_attrs": ["element"], "edge_attrs": ["order"], "wl1_filter": True, "max_mappings": None},
]
H_OPS = [[k, e, i, j] for k in ("iso", "map") for e in (0, 1) for i in range(3) for j in range(3)]


def enum_histories(tier):
    depth = 2 if tier == "quick" else 3
    for d in range(1, depth + 1):
        for combo in itertools.product(H_OPS, repeat=d):
            yield {"graphs": H_GRAPHS, "engines": H_ENGINES, "ops": [list(o) for o in combo]}


@st.composite
def history_strategy(draw):
    base = draw(graph_gen.graphs(min_nodes=2, max_nodes=6, node_attrs=cm.node_attrs_st(elements=("C", "C", "N"), charges=(0, 0, -1), hcounts=(0, 0, 1), hcount_optional=False, aromatic=(False, True)), edge_attrs=cm.edge_attrs_st(ring=None), max_components=2, id_pool=30))
    graphs = [base]
    n_extra = draw(st.integers(1, 4))
    for _ in range(n_extra):
        src = draw(st.sampled_from(graphs))
        how = draw(st.sampled_from(["copy", "charge", "aromatic", "edit", "sub"]))
        if how == "copy":
            g = src
        elif how in ("charge", "aromatic"):
            g = {"nodes": [[n, dict(d)] for n, d in src["nodes"]], "edges": src["edges"]}
            k = draw(st.integers(0, len(g["nodes"]) - 1))
            if how == "charge":
                g["nodes"][k][1]["charge"] = draw(st.sampled_from([c for c in (0, -1, 1) if c != g["nodes"][k][1]["charge"]]))
            else:
                g["nodes"][k][1]["aromatic"] = not g["nodes"][k][1]["aromatic"]
        elif how == "edit":
            g, _ = draw(graph_gen.one_edit(src, node_alts={"element": ["C", "N", "O"], "charge": [0, -1, 1], "hcount": [0, 1]}, edge_alts={"order": [1, 2]}))
        else:
            g, _ = draw(cm.sub_pattern(src))
        g, _ = draw(graph_gen.relabelled(g, id_pool=50))
        graphs.append(g)
    n_eng = draw(st.integers(2, 4))
    engines = [
        {
            # the same selection may be listed in any order by different engines
            "node_attrs": list(draw(st.sampled_from([["element", "charge"], ["element"], ["element", "charge", "aromatic"], ["element", "aromatic"], []]).flatmap(st.permutations))),
            "edge_attrs": draw(st.sampled_from([["order"], ["order"], []])),
            "wl1_filter": draw(st.sampled_from([True, True, False])),
            "max_mappings": draw(st.sampled_from([None, 1])),
        }
        for _ in range(n_eng)
    ]
    g_idx = st.integers(0, len(graphs) - 1)
    ops = draw(st.lists(st.tuples(st.sampled_from(["iso", "iso", "map"]), st.integers(0, n_eng - 1), g_idx, g_idx).map(list), min_size=3, max_size=30))
    return {"graphs": graphs, "engines": engines, "ops": ops}


def strat_histories(tier):
    return history_strategy()


SUBS = [
    Sub(
        "exhaustive_pairs",
        body_pair_small,
        enum=enum_pairs,
        exhaustive=("thorough",),
        shards={"quick": 16, "thorough": 16},
        doc="(i)-(iv) on every ordered pair of class representatives: <= 4 nodes element x order; <= 3 nodes with hcount",
    ),
    Sub(
        "random_pairs",
        body_pair_random,
        strategy=strat_pairs,
        examples={"quick": 14000, "thorough": 100000},
        shards={"quick": 16, "thorough": 16},
        doc="(i)-(iv) on copies / one-edit neighbours / hcount shifts / sub-patterns / independent graphs <= 8 nodes",
    ),
    Sub(
        "large_subpatterns",
        body_pair_random,
        strategy=lambda tier: large_subpattern_pair(),
        examples={"quick": 6000, "thorough": 60000},
        shards={"quick": 16, "thorough": 16},
        doc="(i)-(iv) on low-entropy hosts of 6-9 atoms with connected sub-patterns of 4-6 atoms (pre-filters on vs off, embeddings found)",
    ),
    Sub(
        "relabelling",
        body_relabel,
        strategy=strat_relabel,
        examples={"quick": 5000, "thorough": 30000},
        shards={"quick": 16, "thorough": 16},
        doc="verdicts of every API (filters on and off) are unchanged when either argument gets new ids / orders",
    ),
    Sub(
        "exhaustive_histories",
        run_history,
        enum=enum_histories,
        exhaustive=True,
        shards={"quick": 16, "thorough": 16},
        doc="(v) all query sequences to depth 2 (quick) / 3 (thorough) by two WL engines (with / without charge) on three shared graphs",
    ),
    Sub(
        "random_histories",
        run_history,
        strategy=strat_histories,
        examples={"quick": 7000, "thorough": 40000},
        shards={"quick": 16, "thorough": 16},
        doc="(v) Hypothesis pools of related graphs, 2-4 engines, up to 30 queries",
    ),
]
