"""C19 - complexes, linkage classes and deficiency follow their definitions."""
from __future__ import annotations

from hypothesis import strategies as st

from vlib import crn_gen
from vlib.oracles import exact
from vlib.runner import Sub, Violation

PROPERTY = "C19"
RULE = (
    "networks: exhaustive over 3 species, <= 2 reactions (quick) / sampled third reaction (thorough: all pairs + every "
    "k-th triple) with coefficients {0,1,2}; Hypothesis up to 6 species / 6 reactions; textbook networks with "
    "known deficiency. Oracle = the definitions, computed from the reaction list with exact rank. Non-trivial = "
    ">= 2 distinct non-zero reactant complexes; distinct by reaction list."
)


def reference(case):
    rx = case["rx"]
    species = sorted({s for r, p, _ in rx for s in list(r) + list(p)})

    def vec(d):
        return tuple(int(d.get(s, 0)) for s in species)

    comp = []
    idx = {}

    def add(v):
        if v not in idx:
            idx[v] = len(comp)
            comp.append(v)
        return idx[v]

    arcs = set()
    for r, p, _ in rx:
        arcs.add((add(vec(r)), add(vec(p))))
    n = len(comp)
    # undirected components
    parent = list(range(n))

    def find(x):
        while parent[x] != x:
            parent[x] = parent[parent[x]]
            x = parent[x]
        return x

    for a, b in arcs:
        parent[find(a)] = find(b)
    classes = {}
    for i in range(n):
        classes.setdefault(find(i), []).append(i)
    classes = list(classes.values())
    # reachability closure
    reach = [[i == j for j in range(n)] for i in range(n)]
    for a, b in arcs:
        reach[a][b] = True
    for k in range(n):
        for i in range(n):
            if reach[i][k]:
                for j in range(n):
                    if reach[k][j]:
                        reach[i][j] = True
    weakly = all(all(reach[a][b] for a in cl for b in cl) for cl in classes)
    S = [[int(p.get(s, 0)) - int(r.get(s, 0)) for (r, p, _) in rx] for s in species]
    rk = exact.rank(S)
    delta = n - len(classes) - rk
    lds = []
    for cl in classes:
        diffs = [[comp[b][i] - comp[a][i] for i in range(len(species))] for a, b in arcs if a in cl and b in cl]
        diffs = [d for d in diffs if any(d)]
        s_l = exact.rank(diffs) if diffs else 0
        lds.append(len(cl) - 1 - s_l)
    return dict(
        species=species,
        complexes=set(comp),
        n_complexes=n,
        n_linkage=len(classes),
        rank=rk,
        deficiency=delta,
        weakly_reversible=weakly,
        linkage_deficiencies=sorted(lds),
        nonzero_reactant_complexes=len({vec(r) for r, _, _ in rx if r}),
    )


def body(case, rec, H=None):
    from synkit.CRN.Props.deficiency import DeficiencyAnalyzer

    H = crn_gen.build(case) if H is None else H
    ref = reference(case)
    rec.nt(ref["nonzero_reactant_complexes"] >= 2)
    rec.label(f"reactions={min(len(case['rx']) // 3 * 3, 9)}+", f"deficiency={min(ref['deficiency'], 3)}", f"weakly_reversible={ref['weakly_reversible']}", f"linkage={min(ref['n_linkage'], 4)}")
    rec.show(dict(reactions=crn_gen.rx_str(case), complexes=ref["n_complexes"], linkage=ref["n_linkage"], rank=ref["rank"], deficiency=ref["deficiency"]))
    if ref["deficiency"] < 0:
        raise AssertionError("reference deficiency negative - oracle bug")
    an = DeficiencyAnalyzer(H).compute_crn_deficiency()
    s = an.summary
    d = an.as_dict()
    where = f"{crn_gen.rx_str(case)}"
    if s.n_species != len(ref["species"]) or s.n_reactions != len(case["rx"]):
        raise Violation("counts", f"{where}: n_species/n_reactions {s.n_species}/{s.n_reactions}")
    if s.n_complexes != ref["n_complexes"]:
        raise Violation("complexes", f"{where}: {s.n_complexes} complexes, definition gives {ref['n_complexes']}")
    if an._complexes is not None and set(map(tuple, an._complexes)) != ref["complexes"]:
        raise Violation("complexes", f"{where}: complex vectors {sorted(an._complexes)} != {sorted(ref['complexes'])}")
    if s.n_linkage_classes != ref["n_linkage"]:
        raise Violation("linkage-classes", f"{where}: {s.n_linkage_classes} != {ref['n_linkage']}")
    if s.stoich_rank != ref["rank"]:
        raise Violation("rank", f"{where}: {s.stoich_rank} != exact {ref['rank']}")
    if s.deficiency != ref["deficiency"]:
        raise Violation("deficiency", f"{where}: {s.deficiency} != n-l-s = {ref['deficiency']}")
    if s.deficiency < 0:
        raise Violation("deficiency-negative", where)
    if bool(s.weakly_reversible) != ref["weakly_reversible"]:
        raise Violation("weak-reversibility", f"{where}: {s.weakly_reversible} != {ref['weakly_reversible']}")
    ld = an.linkage_deficiencies
    if ld is None or sorted(int(x) for x in ld) != ref["linkage_deficiencies"]:
        raise Violation("linkage-deficiencies", f"{where}: {ld} != {ref['linkage_deficiencies']}")
    if sum(int(x) for x in ld) > s.deficiency:
        raise Violation("linkage-deficiency-sum", f"{where}: sum {sum(ld)} > {s.deficiency}")
    for k, v in (("n_complexes", s.n_complexes), ("n_linkage_classes", s.n_linkage_classes), ("deficiency", s.deficiency), ("weakly_reversible", s.weakly_reversible), ("stoich_rank", s.stoich_rank)):
        if d.get(k) != v:
            raise Violation("as_dict", f"{where}: as_dict[{k}]={d.get(k)} != summary {v}")
    if an.check_deficiency_zero() != (ref["deficiency"] == 0 and ref["weakly_reversible"]):
        raise Violation("deficiency-zero-check", where)
    # the same analysis on the exported bipartite graph must agree (documented alternative input)
    from synkit.CRN.Hypergraph.conversion import hypergraph_to_bipartite

    Gb = hypergraph_to_bipartite(H)
    # the arcs carry their meaning in the 'role' attribute: the exported graph and the same graph with every arc
    # reversed are the same network (an undirected copy is not: it merges the two arcs of a catalyst)
    for how, Gx in (("as exported", Gb), ("arcs reversed", Gb.reverse(copy=True))):
        s2 = DeficiencyAnalyzer(Gx).compute_crn_deficiency().summary
        if (s2.n_complexes, s2.n_linkage_classes, s2.deficiency, s2.weakly_reversible) != (s.n_complexes, s.n_linkage_classes, s.deficiency, s.weakly_reversible):
            raise Violation("bipartite-input", f"{where}: summary differs between hypergraph and bipartite input ({how})")


def body_after_edit(case, rec):
    """The analysed object is a network that was analysed before and then edited in place: everything must be as for
    the final reaction list (state kept from an earlier analysis must not leak)."""
    from synkit.CRN.Props.deficiency import DeficiencyAnalyzer

    H, final, preserved = crn_gen.build_edited(case, lambda h: DeficiencyAnalyzer(h).compute_crn_deficiency().summary)
    body({"rx": final}, rec, H=H)
    rec.label("count-preserving-edit" if preserved else "counts-changed")
    rec.nontrivial = bool(rec.nontrivial and preserved)


TEXTBOOK = [
    # (reactions, deficiency, weakly reversible)
    ([[{"A": 1, "B": 1}, {"C": 1}, "r"], [{"C": 1}, {"A": 1, "B": 1}, "r"]], 0, True),
    # Edelstein: A<->2A, A+B<->C<->B
    ([[{"A": 1}, {"A": 2}, "r"], [{"A": 2}, {"A": 1}, "r"], [{"A": 1, "B": 1}, {"C": 1}, "r"], [{"C": 1}, {"A": 1, "B": 1}, "r"], [{"C": 1}, {"B": 1}, "r"], [{"B": 1}, {"C": 1}, "r"]], 1, True),
    # futile cycle: S+E<->ES->P+E, P+F<->PF->S+F
    ([[{"A": 1, "B": 1}, {"C": 1}, "r"], [{"C": 1}, {"A": 1, "B": 1}, "r"], [{"C": 1}, {"D": 1, "B": 1}, "r"], [{"D": 1, "E": 1}, {"F": 1}, "r"], [{"F": 1}, {"D": 1, "E": 1}, "r"], [{"F": 1}, {"A": 1, "E": 1}, "r"]], 1, False),
    # A -> B -> C -> A
    ([[{"A": 1}, {"B": 1}, "r"], [{"B": 1}, {"C": 1}, "r"], [{"C": 1}, {"A": 1}, "r"]], 0, True),
    # 2A -> B, A + C -> D : two linkage classes
    ([[{"A": 2}, {"B": 1}, "r"], [{"A": 1, "C": 1}, {"D": 1}, "r"]], 0, False),
]


def body_textbook(case, rec):
    rx, delta, wr = TEXTBOOK[case["i"]]
    ref = reference({"rx": rx})
    if ref["deficiency"] != delta or ref["weakly_reversible"] != wr:
        raise AssertionError(f"oracle disagrees with the literature value on textbook network {case['i']}")
    body({"rx": rx}, rec)
    rec.nt(True)


def enum_small(tier):
    import os

    off = int(os.environ.get("VERIF_SEED", "1") or 1)
    for i, case in enumerate(crn_gen.enum_networks(["A", "B", "C"], (0, 1, 2), 2, allow_empty_side=True)):
        if tier == "thorough" or len(case["rx"]) == 1 or i % 6 == off % 6:
            yield case


def enum_triples(tier):
    """unit/2 coefficients, 3 reactions: sampled systematically (every k-th)"""
    import os

    off = int(os.environ.get("VERIF_SEED", "1") or 1)
    step = 4001 if tier == "quick" else 101
    rx = list(crn_gen.enum_reactions(["A", "B", "C"], (0, 1, 2)))
    n = len(rx)
    total = n * n * n
    for t in range(off % step, total, step):
        a, b, c = t // (n * n), (t // n) % n, t % n
        yield {"rx": [rx[a], rx[b], rx[c]]}


@st.composite
def complex_graph_nets(draw):
    """Networks built from a drawn set of 3-7 complexes and directed arcs among them, each arc reversed with a
    drawn probability: large linkage classes that mix reversible pairs with irreversible steps."""
    sp = crn_gen.SPECIES[:5]
    pool = draw(st.lists(crn_gen.side_strategy(sp, 2, 2, 0), min_size=3, max_size=7, unique_by=lambda d: tuple(sorted(d.items()))))
    n = len(pool)
    arcs = draw(st.lists(st.tuples(st.integers(0, n - 1), st.integers(0, n - 1)).filter(lambda t: t[0] != t[1]), min_size=2, max_size=8))
    rx = []
    for a, b in arcs:
        if not pool[a] and not pool[b]:
            continue
        rx.append([dict(pool[a]), dict(pool[b]), "r"])
        if draw(st.booleans()):
            rx.append([dict(pool[b]), dict(pool[a]), "r"])
    if not rx:
        rx = [[{"A": 1}, {"B": 1}, "r"]]
    return {"rx": rx}


def strat(tier):
    rev = crn_gen.net_strategy(max_species=6, max_rxn=3, max_coef=2, allow_empty_side=True).map(
        lambda c: {"rx": c["rx"] + [[p, r, rule] for r, p, rule in c["rx"]]}
    )
    return st.one_of(crn_gen.net_strategy(max_species=6, max_rxn=6, max_coef=3), rev, complex_graph_nets(), complex_graph_nets())


SUBS = [
    Sub("textbook", body_textbook, enum=lambda tier: [{"i": i} for i in range(len(TEXTBOOK))], exhaustive=True, shards={"quick": 1, "thorough": 1}),
    Sub("small_pairs", body, enum=enum_small, exhaustive=("thorough",), shards={"quick": 16, "thorough": 16}),
    Sub("small_triples", body, enum=enum_triples, shards={"quick": 8, "thorough": 16}),
    Sub("after_edit", body_after_edit, strategy=lambda tier: crn_gen.edited_net_strategy(max_species=4, max_rxn=4, max_coef=2), examples={"quick": 4000, "thorough": 60000}, shards={"quick": 8, "thorough": 16},
        doc="network objects reached by in-place edits after an earlier analysis (remove+add, add, remove)"),
    Sub("geometric", body, strategy=lambda tier: crn_gen.geometric_nets(), examples={"quick": 1500, "thorough": 30000}, shards={"quick": 8, "thorough": 16},
        doc="coefficient chains / cycles of 3-7 steps (badly scaled stoichiometric matrices: rank and linkage-class deficiencies)"),
    Sub("random", body, strategy=strat, examples={"quick": 16000, "thorough": 300000}, shards={"quick": 16, "thorough": 16}),
]
