"""C12 - (maximum) common subgraph mappings are valid, of maximum size, and direction-consistent.

Both implementations are covered: synkit.Graph.Matcher.mcs_matcher.MCSMatcher ("matcher") and
synkit.Graph.MTG.mcs_matcher.MCSMatcher ("mtg").

Documented notion (read from the two modules): a mapping is a label-preserving isomorphism between an *induced*
subgraph of the first graph and an *induced* subgraph of the second one (networkx ``subgraph_isomorphisms_iter``);
the common subgraph need not be connected.  Node labels: the attributes in ``node_attrs`` with their defaults
(default ``["element"]`` / ``"*"``).  Bond order: numeric equality when both values cast to float, plain ``==``
otherwise, missing on both sides ignored (matcher class; the mtg class requires the attribute to be present).
"""
from __future__ import annotations

import itertools
import os

from hypothesis import strategies as st

from vlib import graph_gen as gg
from vlib.oracles import iso
from vlib.runner import HarnessError, Sub, Violation

PROPERTY = "C12"
RULE = (
    "pairs (G1,G2) of node/edge-labelled graphs. exhaustive_small: every ordered pair of isomorphism-class "
    "representatives of graphs with <= 4 nodes over element {C,N} x bond order {absent,1,2} (772 classes, 595 984 pairs; "
    "second graph re-numbered onto disjoint ids; a seed-offset slice in the quick tier), each run through both "
    "classes in both modes. random: Hypothesis pairs up to 6x7 nodes built constructively - planted common core with "
    "independently grown surroundings, relabelled / one-edit copies, disconnected graphs, independent graphs; "
    "non-contiguous ids in generated insertion order, ids of the two graphs disjoint (75%) or overlapping; mixed "
    "int/float (and, matcher class, string / absent) orders, optional charge label, wildcard and automorphism "
    "pruning options. Oracle: validity predicate written from the definition + own exhaustive search for the "
    "largest common induced subgraph. Non-trivial = reference MCS size strictly between 1 and min(|G1|,|G2|); "
    "distinct by the generated pair and configuration."
)
ASSUMPTIONS = [
    "common subgraph = common induced subgraph, not necessarily connected (the documented/implemented notion: "
    "networkx subgraph_isomorphisms_iter on induced sub-patterns)",
    "mtg class: every edge carries the order attribute (its docstring: 'edge attribute storing the scalar order')",
    "no self-loops, simple undirected graphs",
    "mcs_mol / find_rc_mapping component modes are heuristics outside the statement and are not exercised",
]


# ---------------------------------------------------------------- reference (no SynKit, no networkx matcher)
def _order_eq(x, y):
    """documented comparison: numeric when both cast to float, otherwise plain equality (None == None: both missing)."""
    try:
        return float(x) == float(y)
    except (TypeError, ValueError):
        return x == y


def make_ref(cfg):
    node_keys = cfg.get("node_attrs") or ["element"]
    node_defs = cfg.get("node_defaults") or ["*"] * len(node_keys)
    edge_keys = cfg.get("edge_attrs") or ["order"]

    def node_ok(a, b):
        return all(a.get(k, d) == b.get(k, d) for k, d in zip(node_keys, node_defs))

    def edge_ok(a, b):
        return all(_order_eq(a.get(k), b.get(k)) for k in edge_keys)

    return node_ok, edge_ok


def why_invalid(G1, G2, m, node_ok, edge_ok):
    """None if m is a valid common-induced-subgraph mapping G1 -> G2, else (clause, text)."""
    for u, v in m.items():
        if u not in G1:
            return "direction", f"key {u!r} is not a node of the first graph"
        if v not in G2:
            return "direction", f"value {v!r} is not a node of the second graph"
    if len(set(m.values())) != len(m):
        return "injective", "two nodes share an image"
    for u, v in m.items():
        if not node_ok(G1.nodes[u], G2.nodes[v]):
            return "node-label", f"{u}->{v}: {dict(G1.nodes[u])} vs {dict(G2.nodes[v])}"
    for u, w in itertools.combinations(list(m), 2):
        e1, e2 = G1.has_edge(u, w), G2.has_edge(m[u], m[w])
        if e1 != e2:
            return "bond-presence", f"({u},{w}) bonded={e1} but images ({m[u]},{m[w]}) bonded={e2}"
        if e1 and not edge_ok(G1.edges[u, w], G2.edges[m[u], m[w]]):
            return "bond-order", f"({u},{w}) {dict(G1.edges[u, w])} vs ({m[u]},{m[w]}) {dict(G2.edges[m[u], m[w]])}"
    return None


def mcs_size_naive(G1, G2, node_ok, edge_ok):
    """max size over ALL injective partial maps, by plain enumeration (only for tiny graphs)."""
    n1, n2 = list(G1.nodes), list(G2.nodes)
    for k in range(min(len(n1), len(n2)), 0, -1):
        for dom in itertools.combinations(n1, k):
            for img in itertools.permutations(n2, k):
                if why_invalid(G1, G2, dict(zip(dom, img)), node_ok, edge_ok) is None:
                    return k
    return 0


def mcs_size(G1, G2, node_ok, edge_ok):
    """Size of a largest common induced subgraph: depth-first over injective partial maps (map or skip each node
    of G1 in turn) with the trivial bound |mapped| + |undecided| <= best."""
    n1 = list(G1.nodes)
    cand = {u: [v for v in G2.nodes if node_ok(G1.nodes[u], G2.nodes[v])] for u in n1}
    cap = min(len(n1), G2.number_of_nodes())
    best = 0
    pairs = []
    used = set()

    def ok(u, v):
        for a, b in pairs:
            e1, e2 = G1.has_edge(u, a), G2.has_edge(v, b)
            if e1 != e2 or (e1 and not edge_ok(G1.edges[u, a], G2.edges[v, b])):
                return False
        return True

    def rec(i):
        nonlocal best
        if best == cap or len(pairs) + (len(n1) - i) <= best:
            return
        if i == len(n1):
            best = len(pairs)
            return
        u = n1[i]
        for v in cand[u]:
            if v not in used and ok(u, v):
                pairs.append((u, v))
                used.add(v)
                rec(i + 1)
                pairs.pop()
                used.discard(v)
        rec(i + 1)

    rec(0)
    return best


# ---------------------------------------------------------------- the check
def _run(cls, cfg, G1, G2, mcs, warm=False):
    """-> (list of G1->G2 mappings, extra dict).  warm=True: the same matcher object first searches the swapped
    pair (G2, G1) - results of the second search must not depend on what the object did before."""
    if cls == "mtg":
        from synkit.Graph.MTG.mcs_matcher import MCSMatcher

        kw = {}
        if cfg.get("node_attrs"):
            kw = dict(node_label_names=list(cfg["node_attrs"]), node_label_defaults=list(cfg["node_defaults"]))
        m = MCSMatcher(**kw)
        if warm:
            m.find_common_subgraph(G2, G1, mcs=mcs)
        m.find_common_subgraph(G1, G2, mcs=mcs)
        return [dict(x) for x in m.get_mappings()], None
    from synkit.Graph.Matcher.mcs_matcher import MCSMatcher

    kw = {}
    if cfg.get("node_attrs"):
        kw.update(node_attrs=list(cfg["node_attrs"]), node_defaults=list(cfg["node_defaults"]))
    if cfg.get("edge_attrs"):
        kw["edge_attrs"] = list(cfg["edge_attrs"])
    if cfg.get("prune_wc"):
        kw["prune_wc"] = True
    if cfg.get("prune_auto"):
        kw["prune_automorphisms"] = True
    m = MCSMatcher(**kw)
    if warm:
        m.find_common_subgraph(G2, G1, mcs=mcs)
        m.get_mappings("G1_to_G2")
    m.find_common_subgraph(G1, G2, mcs=mcs)
    d12 = m.get_mappings("G1_to_G2")
    d21 = m.get_mappings("G2_to_G1")
    p2h = m.get_mappings("pattern_to_host")
    return d12, dict(d21=d21, p2h=p2h, prop=m.mappings, direction=m.mapping_direction)


def body(case, rec):
    cfg = case.get("cfg") or {}
    G1, G2 = gg.to_nx(case["g1"]), gg.to_nx(case["g2"])
    snap = (gg.from_nx(G1), gg.from_nx(G2))
    node_ok, edge_ok = make_ref(cfg)
    # reference graphs: wildcard pruning removes '*' nodes from both graphs before the search (documented)
    R1, R2 = G1, G2
    if cfg.get("prune_wc"):
        R1 = G1.subgraph([n for n, d in G1.nodes(data=True) if d.get("element") != "*"]).copy()
        R2 = G2.subgraph([n for n, d in G2.nodes(data=True) if d.get("element") != "*"]).copy()
    n1, n2 = R1.number_of_nodes(), R2.number_of_nodes()
    ref = mcs_size(R1, R2, node_ok, edge_ok)
    if n1 <= 4 and n2 <= 4:
        naive = mcs_size_naive(R1, R2, node_ok, edge_ok)
        if naive != ref:
            raise HarnessError(f"reference searches disagree: {naive} vs {ref} on {case}")
    lo = min(n1, n2)
    rec.nt(1 < ref < lo)
    rec.label(
        "G1>G2" if n1 > n2 else ("G1<G2" if n1 < n2 else "G1=G2"),
        "mcs=0" if ref == 0 else ("mcs=1" if ref == 1 else ("mcs=full" if ref == lo else "mcs=proper")),
        f"kind={case.get('kind', 'enum')}",
    )
    if not (gg_connected(G1) and gg_connected(G2)):
        rec.label("disconnected-input")
    if case.get("warm"):
        rec.label("matcher-object-reused")
    for k in ("prune_wc", "prune_auto", "edge_attrs", "node_attrs"):
        if cfg.get(k):
            rec.label(f"cfg:{k}")
    rec.show(dict(g1=_short(case["g1"]), g2=_short(case["g2"]), cls=case["cls"], mcs=case["mcs"], cfg=cfg, ref_size=ref))

    for cls in case["cls"]:
        for mcs in case["mcs"]:
            tag = f"{cls}/mcs={mcs}"
            maps, extra = _run(cls, cfg, G1, G2, bool(mcs), warm=bool(case.get("warm")))
            if (gg.from_nx(G1), gg.from_nx(G2)) != snap:
                raise Violation("input-mutated", f"{tag}: the search changed an input graph")
            rec.label(f"{cls}:n_maps={'0' if not maps else ('1' if len(maps) == 1 else ('2-9' if len(maps) < 10 else '10+'))}")
            # ---- directions (matcher class only: the mtg class has a single, G1->G2, orientation)
            if extra is not None:
                d21, p2h = extra["d21"], extra["p2h"]
                if len(d21) != len(maps) or len(p2h) != len(maps):
                    raise Violation("direction", f"{tag}: {len(maps)} G1->G2 maps, {len(d21)} G2->G1 maps, {len(p2h)} stored maps")
                for i, (a, b) in enumerate(zip(maps, d21)):
                    if {v: u for u, v in a.items()} != b or {v: u for u, v in b.items()} != a:
                        raise Violation("direction", f"{tag}: mapping {i}: G1_to_G2 {a} and G2_to_G1 {b} are not mutually inverse")
            # ---- validity of every mapping, as a map G1 -> G2
            for mp in maps:
                if len(mp) == 0:
                    raise Violation("empty-mapping", f"{tag}: an empty mapping was returned")
                bad = why_invalid(R1, R2, mp, node_ok, edge_ok)
                if bad is not None:
                    raise Violation(bad[0], f"{tag}: mapping {mp}: {bad[1]}")
            # ---- maximum mode: one size, and it is the largest possible
            if mcs:
                sizes = sorted({len(mp) for mp in maps})
                if len(sizes) > 1:
                    raise Violation("same-size", f"{tag}: mappings of sizes {sizes} returned in maximum mode")
                got = sizes[0] if sizes else 0
                if got < ref:
                    raise Violation("maximality", f"{tag}: returned size {got}, a common induced subgraph on {ref} nodes exists")
                if got > ref:  # cannot happen once validity holds; kept as a guard on the reference itself
                    raise HarnessError(f"valid mapping of size {got} larger than the reference maximum {ref}: {case}")


def gg_connected(G):
    if G.number_of_nodes() == 0:
        return True
    seen, todo = set(), [next(iter(G.nodes))]
    while todo:
        x = todo.pop()
        if x in seen:
            continue
        seen.add(x)
        todo.extend(G.neighbors(x))
    return len(seen) == G.number_of_nodes()


def _short(c):
    return dict(
        nodes=[[n, "".join(str(a.get(k, "")) for k in ("element",)) + (f"{a['charge']:+d}" if a.get("charge") else "")] for n, a in c["nodes"]],
        edges=[[u, v, a.get("order")] + ([a["tag"]] if "tag" in a else []) for u, v, a in c["edges"]],
    )


# ---------------------------------------------------------------- exhaustive pairs, n <= 4
_REPS = None


def class_reps():
    """one representative per isomorphism class of labelled graphs with 1..4 nodes (element C/N, order 1/2)."""
    global _REPS
    if _REPS is None:
        reps = []
        for n in range(1, 5):
            seen = {}
            for c in gg.enum_graphs(n, {"element": ["C", "N"]}, [{"order": 1}, {"order": 2}]):
                k = iso.canon_min(gg.to_nx(c), lambda d: d["element"], lambda d: d["order"])
                seen.setdefault(k, c)
            reps.extend(seen.values())
        _REPS = reps
    return _REPS


def _second(c, j):
    """the second graph of a pair: ids moved to 11.. (disjoint from 1..4) in an index-dependent rotation, insertion
    order reversed for odd j, orders written as floats for j % 3 == 0."""
    ids = [n for n, _ in c["nodes"]]
    rot = j % len(ids)
    new = {n: 11 + ((i + rot) % len(ids)) for i, n in enumerate(ids)}
    nodes = [[new[n], dict(a)] for n, a in c["nodes"]]
    edges = [[new[v], new[u], {"order": float(a["order"]) if j % 3 == 0 else a["order"]}] for u, v, a in c["edges"]]
    if j % 2:
        nodes.reverse()
        edges.reverse()
    return {"nodes": nodes, "edges": edges}


def enum_small(tier):
    reps = class_reps()
    seconds = [_second(c, j) for j, c in enumerate(reps)]
    full = tier == "thorough"
    step = 48
    off = int(os.environ.get("VERIF_SEED", "1") or 1) % step
    t = 0
    for i, a in enumerate(reps):
        for j, b in enumerate(seconds):
            t += 1
            if full or t % step == off:
                yield {"g1": a, "g2": b, "cls": ["matcher", "mtg"], "mcs": [True, False], "kind": "enum"}


# ---------------------------------------------------------------- random pairs
_ELEMS = ["C", "C", "N", "O"]


def _node_attrs(cfg_flags):
    elem = st.sampled_from(_ELEMS + (["*"] if cfg_flags["wild"] else []))
    opt = {}
    if cfg_flags["charge"]:
        opt["charge"] = st.sampled_from([0, 0, -1, 1])
    base = st.fixed_dictionaries({"element": elem}, optional=opt)
    if cfg_flags["wild"]:
        # a missing element is read as the default '*'
        return st.one_of(base, base, base, st.fixed_dictionaries({}, optional=opt))
    return base


def _edge_attrs(cls, cfg_flags):
    orders = [1, 2, 1, 2, 1.0, 2.0, 1.5, 3]
    if cls == "matcher" and cfg_flags["odd_orders"]:
        o = st.sampled_from(orders + ["1", "2", "2.0", "a", None]).map(lambda x: {} if x is None else {"order": x})
    else:
        o = st.fixed_dictionaries({"order": st.sampled_from(orders)})
    if cls == "matcher" and cfg_flags["tag"]:
        return st.builds(lambda d, t: dict(d, **t), o, st.fixed_dictionaries({}, optional={"tag": st.sampled_from(["a", "b"])}))
    return o


@st.composite
def _grow(draw, case, extra, pool, node_attrs, edge_attrs):
    """add `extra` nodes (fresh ids from `pool`), each bonded to 0..2 existing nodes, then shuffle insertion order."""
    nodes = [[n, dict(a)] for n, a in case["nodes"]]
    edges = [[u, v, dict(a)] for u, v, a in case["edges"]]
    taken = {n for n, _ in nodes}
    free = [i for i in pool if i not in taken]
    new_ids = draw(st.lists(st.sampled_from(free), min_size=extra, max_size=extra, unique=True)) if extra else []
    for nid in new_ids:
        cur = [n for n, _ in nodes]
        k = min(len(cur), draw(st.sampled_from([0, 1, 1, 1, 2, 2])))
        nb = draw(st.lists(st.sampled_from(cur), min_size=k, max_size=k, unique=True)) if k else []
        nodes.append([nid, draw(node_attrs)])
        for b in nb:
            edges.append([nid, b, draw(edge_attrs)] if draw(st.booleans()) else [b, nid, draw(edge_attrs)])
    nodes = list(draw(st.permutations(nodes)))
    edges = list(draw(st.permutations(edges)))
    return {"nodes": nodes, "edges": edges}


@st.composite
def _renumber(draw, case, pool):
    old = [n for n, _ in case["nodes"]]
    new = draw(st.lists(st.sampled_from(pool), min_size=len(old), max_size=len(old), unique=True))
    m = dict(zip(old, new))
    return gg.apply_perm(case, m)


@st.composite
def pair_cases(draw, tier):
    cls = draw(st.sampled_from(["matcher", "mtg"]))
    mcs = draw(st.sampled_from([True, True, False]))
    flags = dict(
        charge=draw(st.sampled_from([False, False, True])),
        wild=cls == "matcher" and draw(st.sampled_from([False, False, False, True])),
        odd_orders=draw(st.sampled_from([False, False, False, True])),
        tag=draw(st.sampled_from([False, False, False, False, True])),
    )
    cfg = {}
    if flags["charge"] and draw(st.booleans()):
        cfg["node_attrs"], cfg["node_defaults"] = ["element", "charge"], ["*", 0]
    if cls == "matcher":
        if flags["tag"]:
            cfg["edge_attrs"] = ["order", "tag"]
        if flags["wild"] and draw(st.booleans()):
            cfg["prune_wc"] = True
        if draw(st.sampled_from([False, False, False, True])):
            cfg["prune_auto"] = True
    na, ea = _node_attrs(flags), _edge_attrs(cls, flags)
    overlap = draw(st.sampled_from([False, False, False, True]))
    pool1 = list(range(1, 13)) if overlap else list(range(1, 31))
    pool2 = list(range(1, 13)) if overlap else list(range(31, 71))
    hi_small, hi_big = (6, 7) if mcs else (5, 6)
    # which graph may take the larger bound
    first_big = draw(st.booleans())
    cap1, cap2 = (hi_big, hi_small) if first_big else (hi_small, hi_big)
    kind = draw(st.sampled_from(["planted", "planted", "planted", "copy", "edit", "disconnected", "independent"]))
    if kind == "planted":
        core = draw(gg.graphs(min_nodes=2, max_nodes=4, node_attrs=na, edge_attrs=ea, id_pool=200))
        k = len(core["nodes"])
        c1 = draw(_renumber(core, pool1))
        c2 = draw(_renumber(core, pool2))
        g1 = draw(_grow(c1, draw(st.integers(0, cap1 - k)), pool1, na, ea))
        g2 = draw(_grow(c2, draw(st.integers(0, cap2 - k)), pool2, na, ea))
    elif kind in ("copy", "edit"):
        base = draw(gg.graphs(min_nodes=1, max_nodes=min(cap1, cap2), node_attrs=na, edge_attrs=ea, id_pool=200))
        g1 = draw(_grow(draw(_renumber(base, pool1)), 0, pool1, na, ea))
        b2 = base
        if kind == "edit":
            alts = {"element": ["C", "N", "O"]}
            if flags["charge"]:
                alts["charge"] = [0, -1, 1]
            b2, _ = draw(gg.one_edit(base, node_alts=alts, edge_alts={"order": [1, 2, 3]}))
        g2 = draw(_grow(draw(_renumber(b2, pool2)), draw(st.integers(0, 1)) if len(b2["nodes"]) < cap2 else 0, pool2, na, ea))
    elif kind == "disconnected":
        a = draw(gg.graphs(min_nodes=2, max_nodes=cap1, node_attrs=na, edge_attrs=ea, connected=False, id_pool=200))
        b = draw(gg.graphs(min_nodes=1, max_nodes=cap2, node_attrs=na, edge_attrs=ea, id_pool=200))
        g1, g2 = draw(_renumber(a, pool1)), draw(_renumber(b, pool2))
        if draw(st.booleans()) and len(g1["nodes"]) <= cap2 and len(g2["nodes"]) <= cap1:
            g1, g2 = draw(_renumber(b, pool1)), draw(_renumber(a, pool2))
    else:
        a = draw(gg.graphs(min_nodes=1, max_nodes=cap1, node_attrs=na, edge_attrs=ea, id_pool=200))
        b = draw(gg.graphs(min_nodes=1, max_nodes=cap2, node_attrs=na, edge_attrs=ea, id_pool=200))
        g1, g2 = draw(_renumber(a, pool1)), draw(_renumber(b, pool2))
    return {"g1": g1, "g2": g2, "cls": [cls], "mcs": [mcs], "cfg": cfg, "kind": kind, "warm": draw(st.sampled_from([False, False, True]))}


@st.composite
def uniform_large_cases(draw, tier=None):
    """Low-entropy pairs at the upper size bound: both graphs 6-7 nodes, one element, one bond order, drawn
    independently (many non-isomorphic sub-patterns share their local invariants, so shortcuts keyed on
    fingerprints of node subsets are exposed; maximality is decided by the own branch-and-bound)."""
    na = gg.node_attr_strategy(elements=("C",), charges=None, hcounts=None, aromatic=None)
    ea = gg.edge_attr_strategy(orders=(1,))
    n1 = draw(st.sampled_from([6, 6, 7]))
    n2 = draw(st.sampled_from([6, 7, 7]))
    a = draw(gg.graphs(min_nodes=n1, max_nodes=n1, node_attrs=na, edge_attrs=ea, id_pool=200, max_components=2, extra_edge_p=draw(st.sampled_from([0.1, 0.25, 0.45]))))
    b = draw(gg.graphs(min_nodes=n2, max_nodes=n2, node_attrs=na, edge_attrs=ea, id_pool=200, max_components=2, extra_edge_p=draw(st.sampled_from([0.1, 0.25, 0.45]))))
    g1, g2 = draw(_renumber(a, list(range(1, 31)))), draw(_renumber(b, list(range(31, 71))))
    return {"g1": g1, "g2": g2, "cls": [draw(st.sampled_from(["matcher", "mtg"]))], "mcs": [True], "cfg": {}, "kind": "uniform-large"}


def strat_pairs(tier):
    return pair_cases(tier)


SUBS = [
    Sub("exhaustive_small", body, enum=enum_small, exhaustive=("thorough",), shards={"quick": 16, "thorough": 16},
        doc="all ordered pairs of isomorphism-class representatives with <= 4 nodes (C/N x order 1/2), both classes, "
            "both modes; every 48th pair (seed offset) in the quick tier"),
    Sub("random_pairs", body, strategy=strat_pairs, examples={"quick": 8000, "thorough": 120000}, shards={"quick": 16, "thorough": 16},
        doc="constructed pairs up to 6x7 nodes (5x6 when all sizes are listed): planted cores, copies, one-edit copies, "
            "disconnected, independent; label / order representation and pruning options varied"),
    Sub("uniform_large", body, strategy=uniform_large_cases, examples={"quick": 3200, "thorough": 48000}, shards={"quick": 16, "thorough": 16},
        doc="independent single-label graphs with 6-7 nodes each, maximum mode, both classes: maximality against the own branch-and-bound"),
]
