"""C05 - rule application depends on the chemistry only, not on how inputs are written."""
from __future__ import annotations

import networkx as nx
from hypothesis import strategies as st

from props.C03 import centre_classes, eligible
from vlib import chem_gen as cg
from vlib import rx_apply as rx
from vlib.runner import Sub, Violation

PROPERTY = "C05"
RULE = (
    "case = (template reaction, kind, substrate reaction [own / same centre class / other], direction, one generated "
    "atom-map permutation of the template reaction, one generated rewriting of the substrate SMILES [atom order, "
    "ring-closure digits, fragment order]); every representation is run with strategies all, comp and bt, and "
    "the call is repeated on the same template object. Oracle (metamorphic): set of own unmapped keys of "
    "smarts_list identical across representations and repeats; comp subset of all; bt == comp whenever comp has "
    "results, else bt subset of all (the fallback itself is decided on matches and is checked under C06). Each comparison is made twice: with the reactor as is, and with the unpruned SubgraphSearchEngine "
    "matches injected - a difference that vanishes with raw matches is attributed to the recorded pruning "
    "finding, one that persists is reported. Non-trivial = pattern disconnected or with two like-labelled nodes, "
    "and >= 2 matches; distinct by the case tuple."
)
ASSUMPTIONS = ["the template's hydrogen style decides the reactor mode (DESIGN.md §3)"]


def _keys(substrate, tpl, invert, strategy, style, raw, automorphism=False):
    if raw:
        r, _, _ = rx.raw_reactor(substrate, tpl, invert, strategy, style)
    else:
        r = rx.make_reactor(substrate, tpl, invert, strategy, style, automorphism=automorphism)
    return rx.key_set(r.smarts_list), r


def body(case, rec):
    ti, si = case["tpl"], case["sub"]
    kind, invert = case["kind"], case["invert"]
    t0, _, style = cg.corpus()[ti]
    if rx.slow_known(t0, kind, invert):
        rec.label("excluded:slow-h2-full-its-backward")
        return
    s_rsmi = cg.corpus()[si][0]
    r, p = s_rsmi.split(">>")
    sub0 = cg.unmapped(p if invert else r)
    if case.get("spectator"):
        # an inert extra fragment: the substrate then has more components than a small pattern, so the strict
        # component-aware strategy is empty by its documented rule and the fallback must equal the exhaustive one
        sub0 = sub0 + "." + case["spectator"]
    sub1 = sub0
    if case.get("satoms"):
        sub1 = cg.reorder_side(sub1, case["satoms"])
    if case.get("sfrags"):
        sub1 = cg.shuffle_fragments(sub1, case["sfrags"])
    assert cg.side_key(sub1) == cg.side_key(sub0)
    t1 = cg.variant(t0, dict(maps=case["tmaps"], offset=case.get("offset", 0)))
    tpl0 = rx.template_graph(t0, kind)
    tpl1 = rx.template_graph(t1, kind)
    reps = [("base", sub0, tpl0), ("template-renumbered", sub0, tpl1), ("substrate-rewritten", sub1, tpl0), ("base-repeated", sub0, tpl0)]
    where = f"tpl=corpus[{ti}] {kind} sub=corpus[{si}] {'bw' if invert else 'fw'}"

    def run(raw):
        table = {}
        first = None
        for name, sub, tpl in reps:
            for s in rx.STRATEGIES:
                ks, reactor = _keys(sub, tpl, invert, s, style, raw, bool(case.get("automorphism")))
                table[(name, s)] = ks
                if first is None:
                    first = reactor
        return table, first

    def compare(table):
        for s in rx.STRATEGIES:
            base = table[("base", s)]
            for name, _, _ in reps[1:]:
                if table[(name, s)] != base:
                    return ("representation-dependence", f"{where} strategy {s}: {len(base)} distinct results for the base input, {len(table[(name, s)])} for {name} (only-base {len(base - table[(name, s)])}, only-variant {len(table[(name, s)] - base)})")
        for name, _, _ in reps:
            a, c, b = table[(name, "all")], table[(name, "comp")], table[(name, "bt")]
            if not c <= a:
                return ("comp-not-subset-of-all", f"{where} [{name}]: comp has {len(c - a)} results that all lacks")
            # the fallback is decided on MATCHES (C06), not on the reactions they yield: when the component-aware
            # matches exist but none yields a valid reaction, bt legitimately has no result although all has some.
            # Asserted here is what the statement says: bt == comp whenever comp has results; otherwise bt is within all.
            if c and b != c:
                return ("bt-fallback", f"{where} [{name}]: comp has {len(c)} results but bt has {len(b)} (all={len(a)})")
            if not c and not b <= a:
                return ("bt-fallback", f"{where} [{name}]: bt has {len(b - a)} results that all lacks (comp empty)")
        return None

    table, reactor = run(False)
    pat = reactor.rule.left.raw
    labels = [(d.get("element"), d.get("charge")) for _, d in pat.nodes(data=True)]
    sym = (not nx.is_connected(pat)) if pat.number_of_nodes() else False
    sym = sym or len(set(labels)) < len(labels)
    nres = len(table[("base", "all")])
    rec.nt(sym and len(reactor.mappings) >= 2)
    lat = table[("base", "all")], table[("base", "comp")], table[("base", "bt")]
    rec.label("lattice:comp-empty-all-nonempty" if (lat[0] and not lat[1]) else ("lattice:comp-proper-subset" if lat[1] < lat[0] else "lattice:comp==all"))
    if case.get("spectator"):
        rec.label("spectator-fragment")
    if case.get("automorphism"):
        rec.label("automorphism=True")
    rec.label(f"style={style}", f"kind={kind}", "own" if ti == si else "foreign", "results=0" if nres == 0 else ("results=1" if nres == 1 else "results>=2"))
    rec.show(dict(template=t0[:140], substrate=sub0[:100], rewritten=sub1[:100], kind=kind, invert=invert, results=nres))
    bad = compare(table)
    if bad is None:
        return
    raw_table, _ = run(True)
    bad_raw = compare(raw_table)
    if bad_raw is not None:
        raise Violation(bad_raw[0], bad_raw[1] + " [persists with every raw match glued]")
    raise Violation(bad[0] + ":pruning", bad[1] + " [vanishes when every raw match is glued: symmetry pruning]")


def body_identity(case, rec):
    """Results must not depend on which objects happen to share an id() over time (fault injection: a legal
    adversarial id() is installed in the globals of all synkit modules; a decoy template is applied and freed
    first so that a dead object's id is available for the template under test)."""
    import gc

    from vlib.adv_id import AdversarialId, installed

    ti, si, di = case["tpl"], case["sub"], case["decoy"]
    kind, invert, strategy = case["kind"], case["invert"], case["strategy"]
    t0, _, style = cg.corpus()[ti]
    if rx.slow_known(t0, kind, invert) or rx.slow_known(cg.corpus()[di][0], kind, invert):
        rec.label("excluded:slow-h2-full-its-backward")
        return
    s_rsmi = cg.corpus()[si][0]
    r, p = s_rsmi.split(">>")
    sub = cg.unmapped(p if invert else r)
    d_rsmi, _, d_style = cg.corpus()[di]
    dr, dp = d_rsmi.split(">>")
    dsub = cg.unmapped(dp if invert else dr)
    keys0 = rx.key_set(rx.make_reactor(sub, rx.template_graph(t0, kind), invert, strategy, style).smarts_list)
    gc.collect()
    adv = AdversarialId(case["reuse"])
    with installed(adv):
        tpl_d = rx.template_graph(d_rsmi, kind)
        rx.make_reactor(dsub, tpl_d, invert, strategy, style).smarts_list
        del tpl_d
        gc.collect()
        tpl = rx.template_graph(t0, kind)
        keys1 = rx.key_set(rx.make_reactor(sub, tpl, invert, strategy, style).smarts_list)
        keys2 = rx.key_set(rx.make_reactor(sub, tpl, invert, strategy, style).smarts_list)
    rec.nt(len(keys0) >= 1)
    rec.label("id-called" if adv.calls else "id-never-called", "ids-reused" if adv.reused else "no-reuse")
    rec.show(dict(template=t0[:120], decoy=d_rsmi[:80], substrate=sub[:80], id_calls=adv.calls, reused=adv.reused))
    if keys1 != keys0 or keys2 != keys0:
        raise Violation(
            "identity-dependence",
            f"tpl=corpus[{ti}] {kind} sub=corpus[{si}] {'bw' if invert else 'fw'} {strategy}: {len(keys0)} results normally, "
            f"{len(keys1)}/{len(keys2)} when a freed template's id() is handed to this template (decoy corpus[{di}])",
        )


def strat_identity(tier):
    el = eligible()
    styles = {i: cg.corpus()[i][2] for i in el}
    by_style = {s: [i for i in el if styles[i] == s] for s in ("explicit", "implicit")}
    return st.sampled_from(el).flatmap(
        lambda t: st.fixed_dictionaries(
            dict(
                tpl=st.just(t),
                sub=st.one_of(st.just(t), st.sampled_from(by_style[styles[t]])),
                decoy=st.sampled_from(by_style[styles[t]]),
                kind=st.sampled_from(["rc", "its"]),
                invert=st.booleans(),
                strategy=st.sampled_from(rx.STRATEGIES),
                reuse=st.lists(st.booleans(), min_size=2, max_size=8).map(lambda b: [True] + b),
            )
        )
    )


def strat(tier):
    el = eligible()
    cls = centre_classes()
    keys = st.lists(st.integers(0, 10**6), min_size=4, max_size=24)

    def pick_sub(t):
        mates = cls.get(t, [])
        opts = [st.just(t), st.just(t)]
        if mates:
            opts += [st.sampled_from(mates), st.sampled_from(mates), st.sampled_from(mates)]
        opts += [st.sampled_from(el), st.sampled_from(el), st.sampled_from(el)]
        return st.one_of(*opts)

    return st.sampled_from(el).flatmap(
        lambda t: st.fixed_dictionaries(
            dict(
                tpl=st.just(t),
                sub=pick_sub(t),
                kind=st.sampled_from(["rc", "rc", "rc", "its"]),
                invert=st.booleans(),
                spectator=st.sampled_from([None, None, "O", "CO", "[Na+]", "C1CCOC1"]),
                automorphism=st.sampled_from([False, False, True]),  # documented constructor option
                tmaps=keys,
                offset=st.sampled_from([0, 0, 100]),
                satoms=st.one_of(st.none(), keys, keys),
                sfrags=st.one_of(st.none(), keys),
            )
        )
    )


def enum_option_sweep(tier):
    """Exhaustive over the corpus: own substrate, centre template, both directions, with the documented
    `automorphism=True` option on and off, against a fixed renumbering and a fixed substrate rewriting (atom order
    reversed, fragments rotated)."""
    down = list(range(24, 0, -1))
    for i in eligible():
        for invert in (False, True):
            for auto in ((True,) if tier == "quick" else (True, False)):
                yield dict(tpl=i, sub=i, kind="rc", invert=invert, spectator=None, automorphism=auto, tmaps=down, offset=0, satoms=down, sfrags=[1, 2, 0, 3])


SUBS = [
    Sub("option_sweep", body, enum=enum_option_sweep, exhaustive=True, shards={"quick": 16, "thorough": 16},
        doc="every eligible corpus reaction on its own substrate (centre template, both directions) with automorphism=True: base vs renumbered template vs rewritten substrate vs repeated call, three strategies"),
    Sub("metamorphic", body, strategy=strat, examples={"quick": 800, "thorough": 20000}, shards={"quick": 16, "thorough": 16}),
    Sub("identity_independence", body_identity, strategy=strat_identity, examples={"quick": 400, "thorough": 8000}, shards={"quick": 16, "thorough": 16}, shrink=False),
]
