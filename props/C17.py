"""C17 - stoichiometric analysis agrees with exact linear algebra."""
from __future__ import annotations

from collections import Counter
from fractions import Fraction

from hypothesis import strategies as st

from vlib import crn_gen
from vlib.oracles import exact
from vlib.runner import Inconclusive, Sub, Violation

PROPERTY = "C17"
RULE = (
    "networks: exhaustive over 3 species x <= 2 reactions x coefficients {0,1,2}; Hypothesis up to 7 species / "
    "6 reactions, coefficients <= 3, plus constructed families (reversible chains, cycles, open systems, "
    "networks with a >= 2-dimensional kernel and no one-signed basis vector). Oracle: S recomputed from the "
    "network, exact Fraction rank/kernel, and an exact two-sided decision (positive kernel vector or Stiemke "
    "alternative, both verified in Fractions) for conservative/consistent. Non-trivial = left or right kernel "
    "of dimension >= 2 in which no coordinate basis vector is one-signed; distinct by reaction list."
)
TOL = 1e-8


def model_matrix(case):
    rx = case["rx"]
    species = sorted({s for r, p, _ in rx for s in list(r) + list(p)})
    S = [[int(p.get(s, 0)) - int(r.get(s, 0)) for (r, p, _) in rx] for s in species]
    return species, S


def _one_signed(vecs):
    return any(all(x > 0 for x in v) or all(x < 0 for x in v) for v in vecs)


def body(case, rec, H=None):
    import numpy as np

    from synkit.CRN.Props import stoich

    H = crn_gen.build(case) if H is None else H
    species, S = model_matrix(case)
    n, m = len(species), len(case["rx"])
    ST = exact.transpose(S)

    # ---- S itself
    sp, rxn, Sk = stoich.build_S(H)
    Sk = np.asarray(Sk)
    if list(sp) != species:
        raise Violation("S-rows", f"species order {sp} != {species}")
    if Sk.shape != (n, m):
        raise Violation("S-shape", f"{Sk.shape} != {(n, m)}")
    cols_api = Counter((str(rxn[j]), tuple(int(round(x)) for x in Sk[:, j])) for j in range(m))
    if any(abs(x - round(x)) > 1e-12 for x in Sk.flatten()):
        raise Violation("S-entries", "non-integer entries")
    cols_ref = Counter((case["rx"][j][2], tuple(S[i][j] for i in range(n))) for j in range(m))
    if cols_api != cols_ref:
        raise Violation("S-entries", f"columns {sorted(cols_api.items())} != produced-consumed {sorted(cols_ref.items())}")
    so, eo, inc = H.incidence_matrix(sparse=False)
    if list(so) != species or Counter(tuple(int(x) for x in inc[:, j]) for j in range(m)) != Counter(
        tuple(S[i][j] for i in range(n)) for j in range(m)
    ):
        raise Violation("S-vs-incidence", "incidence_matrix columns differ from build_S columns")
    Sm = np.asarray(stoich.stoichiometric_matrix(H))
    if Sm.shape != Sk.shape or not np.array_equal(Sm, Sk):
        raise Violation("S-entries", "stoichiometric_matrix != build_S")

    # ---- the documented alternative input: the exported bipartite species/reaction graph
    from synkit.CRN.Hypergraph.conversion import hypergraph_to_bipartite

    Gb = hypergraph_to_bipartite(H)
    # roles carry the meaning of an arc (as build_S documents): the same graph with every arc reversed is the same network
    spr, _, Sr = stoich.build_S(Gb.reverse(copy=True))
    spb, rxb, Sb = stoich.build_S(Gb)
    Sb = np.asarray(Sb)
    if list(spr) != list(spb) or not np.array_equal(np.asarray(Sr), Sb):
        raise Violation("S-bipartite-input", f"{crn_gen.rx_str(case)}: build_S differs between the exported bipartite graph and the same graph with arcs reversed")
    if list(spb) != species or Sb.shape != (n, m) or Counter(tuple(int(round(x)) for x in Sb[:, j]) for j in range(m)) != Counter(
        tuple(S[i][j] for i in range(n)) for j in range(m)
    ):
        raise Violation("S-bipartite-input", f"{crn_gen.rx_str(case)}: build_S on the bipartite graph differs from produced-consumed")

    # ---- rank and kernels
    rk = exact.rank(S)
    if stoich.stoichiometric_rank(H) != rk:
        raise Violation("rank", f"rank {stoich.stoichiometric_rank(H)} != exact {rk}")
    L = np.atleast_2d(np.asarray(stoich.left_nullspace(H), dtype=float))
    R = np.atleast_2d(np.asarray(stoich.right_nullspace(H), dtype=float))
    for name, B, dim, length, A in (("left-kernel", L, n - rk, n, Sk.T), ("right-kernel", R, m - rk, m, Sk)):
        if B.size == 0:
            k = 0
        else:
            if B.shape[0] != length:
                raise Violation(name, f"basis has shape {B.shape}, vectors must have length {length}")
            k = B.shape[1]
        if k != dim:
            raise Violation(name, f"dimension {k} != {dim}")
        if k:
            if np.linalg.matrix_rank(B) != k:
                raise Violation(name, "basis vectors are linearly dependent")
            for j in range(k):
                b = B[:, j]
                if np.max(np.abs(A @ b)) > TOL * max(1.0, np.max(np.abs(b))):
                    raise Violation(name, f"basis vector {b.tolist()} does not annihilate S")
    laws = stoich.integer_conservation_laws(H)
    if laws is None or len(laws) != n - rk or any(len(v) != n for v in laws):
        raise Violation("integer-laws", f"{laws} for left kernel of dimension {n - rk}")
    summ = stoich.summary(H)
    if (summ.n_species, summ.n_reactions, summ.rank, summ.dim_left_kernel, summ.dim_right_kernel) != (n, m, rk, n - rk, m - rk):
        raise Violation("summary", f"{summ} vs n={n} m={m} rank={rk}")

    # ---- conservative / consistent with exact certificates
    cons_ref, cert_c = exact.positive_kernel_vector(ST)  # m > 0, S^T m = 0
    flux_ref, cert_f = exact.positive_kernel_vector(S)  # v > 0, S v = 0
    if cons_ref is None or flux_ref is None:
        raise Inconclusive()
    lk = exact.kernel(ST, n)
    rkern = exact.kernel(S, m)
    hard = (len(lk) >= 2 and not _one_signed(lk)) or (len(rkern) >= 2 and not _one_signed(rkern))
    rec.nt(hard)
    rec.label(f"conservative={cons_ref}", f"consistent={flux_ref}", f"dimL={min(len(lk),3)}", f"dimR={min(len(rkern),3)}")
    if hard:
        rec.label("hard-kernel")
    rec.show(dict(reactions=crn_gen.rx_str(case), rank=rk, conservative=cons_ref, consistent=flux_ref))

    got = stoich.is_conservative(H)
    gotf = stoich.is_consistent(H)
    if bool(gotf) != flux_ref:
        raise Violation(
            "is_consistent",
            f"{crn_gen.rx_str(case)}: reported {gotf}, exact answer {flux_ref} (certificate {[str(x) for x in cert_f]})",
        )
    if summ.is_conservative != got or summ.is_consistent != gotf:
        raise Violation("summary", "summary verdicts differ from the direct calls")
    if stoich.stoichiometric_rank(Gb) != rk or bool(stoich.is_consistent(Gb)) != flux_ref:
        raise Violation("bipartite-input", f"{crn_gen.rx_str(case)}: rank / consistency on the bipartite graph differ from the exact answers")

    # conservative verdicts last: a hit on the recorded finding must not hide the clauses above
    if bool(got) != cons_ref:
        raise Violation(
            "is_conservative",
            f"{crn_gen.rx_str(case)}: reported {got}, exact answer {cons_ref} (certificate {[str(x) for x in cert_c]})",
        )
    flag, mvec = stoich.compute_conservativity(H)
    if bool(flag) != cons_ref:
        raise Violation("compute_conservativity", f"{crn_gen.rx_str(case)}: reported {flag}, exact answer {cons_ref}")
    if flag and mvec is not None:
        mv = np.asarray(mvec, dtype=float)
        if mv.shape != (n,) or not np.all(mv > 0) or np.max(np.abs(Sk.T @ mv)) > TOL * np.max(np.abs(mv)):
            raise Violation("conservation-witness", f"returned law {mv.tolist()} is not a positive conservation law")
    if not flag and mvec is not None:
        raise Violation("conservation-witness", "witness returned with a negative verdict")

def body_after_edit(case, rec):
    """Same clauses on a network object that was analysed before and then edited in place."""
    from synkit.CRN.Props import stoich

    H, final, preserved = crn_gen.build_edited(case, lambda h: (stoich.summary(h), stoich.left_nullspace(h)))
    body({"rx": final}, rec, H=H)
    rec.label("count-preserving-edit" if preserved else "counts-changed")


# ---------------------------------------------------------------- known finding (attribution predicate)
def lp_stage_unbounded(case, v, m):
    """True iff the false 'not conservative' verdict is explained by the recorded defect: the exact answer is
    'conservative' and the left-kernel basis SynKit computes has >= 2 columns none of which is one-signed, so
    the verdict comes from the LP stage of _positive_conservation_law_from_basis.  That LP minimises sum(a)
    subject to B a >= eps with free a: it is either unbounded, or its optimum sits on the boundary m_i = eps and
    then fails the strict test m > eps - the stage cannot confirm a law except by rounding luck."""
    import numpy as np

    from synkit.CRN.Props import stoich

    if "reported False" not in v.message and "reported None" not in v.message:
        return False
    if "ops" in case:  # after_edit cases: the network is the edited object's final reaction list
        _, final, _ = crn_gen.build_edited(case, lambda h: None)
        case = {"rx": final}
    species, S = model_matrix(case)
    ok, _ = exact.positive_kernel_vector(exact.transpose(S))
    if ok is not True:
        return False
    B = np.atleast_2d(np.asarray(stoich.left_nullspace(crn_gen.build(case)), dtype=float))
    if B.size == 0 or B.shape[1] < 2:
        return False
    eps = 1e-8
    if any(np.all(B[:, j] > eps) or np.all(B[:, j] < -eps) for j in range(B.shape[1])):
        return False
    return True


KNOWN_PREDICATES = {"lp_stage_unbounded": lp_stage_unbounded}


# ---------------------------------------------------------------- generators
def enum_small(tier):
    """all one-reaction networks; all unordered reaction pairs (every 12th in the quick tier, offset by the seed)."""
    import os

    full = tier == "thorough"
    off = int(os.environ.get("VERIF_SEED", "1") or 1) % 12
    for i, case in enumerate(crn_gen.enum_networks(["A", "B", "C"], (0, 1, 2), 2, allow_empty_side=True)):
        if full or len(case["rx"]) == 1 or i % 12 == off:
            yield case


def _families():
    sp = crn_gen.SPECIES

    def chain(k, rev, open_):
        rx = []
        for i in range(k):
            rx.append([{sp[i]: 1}, {sp[i + 1]: 1}, "r"])
            if rev:
                rx.append([{sp[i + 1]: 1}, {sp[i]: 1}, "r"])
        if open_:
            rx.append([{}, {sp[0]: 1}, "q"])
            rx.append([{sp[k]: 1}, {}, "q"])
        return {"rx": rx}

    def cycle(k, coef):
        return {"rx": [[{sp[i]: coef}, {sp[(i + 1) % k]: coef}, "r"] for i in range(k)]}

    chains = st.builds(chain, st.integers(1, 5), st.booleans(), st.booleans())
    cycles = st.builds(cycle, st.integers(2, 6), st.integers(1, 3))
    # many species, few reactions -> big left kernel; few species many reactions -> big right kernel
    wide = crn_gen.net_strategy(max_species=7, max_rxn=2, max_coef=3, max_terms=3)
    tall = st.lists(crn_gen.rxn_strategy(crn_gen.SPECIES[:3], 3, True), min_size=3, max_size=6).map(lambda rx: {"rx": rx})
    return st.one_of(chains, cycles, wide, wide, tall, tall)


def strat(tier):
    return st.one_of(crn_gen.net_strategy(max_species=7, max_rxn=6, max_coef=3), _families())


def strat_geometric(tier):
    return crn_gen.geometric_nets()


SUBS = [
    Sub("exhaustive_small", body, enum=enum_small, exhaustive=("thorough",), shards={"quick": 16, "thorough": 16},
        doc="3 species, coefficients 0..2: all single reactions and every 12th unordered pair (quick); all pairs (thorough, complete)"),
    Sub("after_edit", body_after_edit, strategy=lambda tier: crn_gen.edited_net_strategy(max_species=4, max_rxn=4, max_coef=2, rules=("r", "q")), examples={"quick": 3000, "thorough": 40000}, shards={"quick": 8, "thorough": 16},
        doc="network objects reached by in-place edits after an earlier analysis"),
    Sub("geometric", body, strategy=strat_geometric, examples={"quick": 1500, "thorough": 30000}, shards={"quick": 8, "thorough": 16},
        doc="coefficient chains / cycles of 3-7 steps whose positive flux or conservation law spans up to three orders of magnitude"),
    Sub("random", body, strategy=strat, examples={"quick": 6000, "thorough": 150000}, shards={"quick": 16, "thorough": 16}),
]
