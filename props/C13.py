"""C13 - clustering partitions reaction-centre graphs exactly into isomorphism classes.

Covered entry points: GraphCluster.fit / iterative_cluster, BatchCluster.fit / cluster / lib_check.
Notion (read from graph_cluster.py / batch_cluster.py / graph_morphism.py): node labels ``element`` (default "*")
and ``charge`` (default 0) compared with ==, edge attribute ``order`` (the ITS (before, after) pair, default 1)
compared with ==.  Nothing else (typesGH, atom_map, standard_order, hcount) takes part.
"""
from __future__ import annotations

import itertools
from functools import lru_cache

import networkx as nx
from hypothesis import strategies as st

from vlib import chem_gen
from vlib.oracles import iso
from vlib.runner import HarnessError, Sub, Violation

PROPERTY = "C13"
RULE = (
    "lists of 2..14 reaction-centre graphs: 1..5 corpus reactions are drawn (centres extracted with "
    "rsmi_to_its(core=True) as input preparation), every list item is one of them as an exact copy, a relabelled "
    "copy (fresh non-contiguous node ids, shuffled node/edge insertion order, optionally the default charge 0 left "
    "out) or a near-miss (one component of one bond-order pair, or one charge, changed; the same edit may be drawn "
    "for several copies and may hit symmetric positions); list order, pre-grouping attribute (none / eight invariant "
    "strings, lists or dicts), batch sizes, initial representatives and arrival chunks are generated. Oracle: pairwise "
    "brute-force isomorphism on (element, charge, order pair). Non-trivial = the list contains an isomorphic pair "
    "with different node ids AND a non-isomorphic pair that differs by one edit; distinct by the generated case."
)
ASSUMPTIONS = [
    "lists are non-empty; attribute_key is None or names an isomorphism-invariant str / list / dict present on every entry "
    "(GraphCluster sorts list attributes and cannot take None values)",
    "default node labels (element, charge) and edge attribute (order) of the two classes, nx backend",
    "existing representatives handed to lib_check / cluster / fit are pairwise non-isomorphic with distinct class ids",
]

NODE_OK = iso.eq_on(["element", "charge"], {"element": "*", "charge": 0})
EDGE_OK = iso.eq_on(["order"], {"order": 1})
ATTR_KINDS = [None, "size", "elems", "charges", "orders", "const", "list_elems", "list_deg", "dict_elems", "dict_elems_raw", "dict_elems_raw"]
RULE_KEYS = ["RC", "rc", "gml"]
ATTR_KEY = "sig"


# ---------------------------------------------------------------- input preparation
@lru_cache(maxsize=None)
def _pool():
    from synkit.IO import rsmi_to_its

    out = []
    for rsmi, _src, _style in chem_gen.corpus():
        out.append(rsmi_to_its(rsmi, core=True))
    return tuple(out)


_ORDER_VALUES = [0.0, 1.0, 2.0, 3.0, 1.5]


def _tupleise(g):
    """a fresh nx.Graph with the same ids / attributes in the same insertion order (deep enough: attr dicts copied)."""
    h = nx.Graph()
    for n, d in g.nodes(data=True):
        h.add_node(n, **dict(d))
    for u, v, d in g.edges(data=True):
        h.add_edge(u, v, **dict(d))
    return h


def build_item(spec):
    """spec = {"b": corpus index, "edit": None | ["charge", pos, delta] | ["order", pos, side, shift],
               "relabel": None | [keys...], "dropq": bool}"""
    base = _pool()[spec["b"] % len(_pool())]
    g = _tupleise(base)
    edit = spec.get("edit")
    nodes = sorted(g.nodes)
    edges = sorted(tuple(sorted(e)) for e in g.edges)
    if edit and edit[0] == "charge" and nodes:
        n = nodes[edit[1] % len(nodes)]
        g.nodes[n]["charge"] = g.nodes[n].get("charge", 0) + edit[2]
    elif edit and edit[0] == "order" and edges:
        u, v = edges[edit[1] % len(edges)]
        o = list(g.edges[u, v]["order"])
        side = edit[2] % 2
        alts = [x for x in _ORDER_VALUES if x != o[side]]
        o[side] = alts[edit[3] % len(alts)]
        g.edges[u, v]["order"] = tuple(o)
        g.edges[u, v]["standard_order"] = o[0] - o[1]
    keys = spec.get("relabel")
    if keys:
        n = len(nodes)
        perm = chem_gen._perm_from_keys(keys, n)
        new = {old: 100 + 3 * perm[i] + (keys[0] % 3) for i, old in enumerate(nodes)}
        node_order = [list(g.nodes)[i] for i in chem_gen._perm_from_keys(keys[::-1], n)]
        el = list(g.edges(data=True))
        edge_order = [el[i] for i in chem_gen._perm_from_keys(keys[1:] + keys[:1], len(el))]
        h = nx.Graph()
        for old in node_order:
            d = dict(g.nodes[old])
            d["atom_map"] = new[old]
            h.add_node(new[old], **d)
        for t, (u, v, d) in enumerate(edge_order):
            a, b = (new[u], new[v]) if (keys[t % len(keys)] + t) % 2 else (new[v], new[u])
            h.add_edge(a, b, **dict(d))
        g = h
    if spec.get("dropq"):
        for _n, d in g.nodes(data=True):
            if d.get("charge") == 0:
                del d["charge"]
    return g


def attr_of(g, kind):
    els = sorted(str(d.get("element", "*")) for _, d in g.nodes(data=True))
    if kind == "size":
        return f"{g.number_of_nodes()}-{g.number_of_edges()}"
    if kind == "elems":
        return "".join(els)
    if kind == "charges":
        return ",".join(map(str, sorted(d.get("charge", 0) for _, d in g.nodes(data=True))))
    if kind == "orders":
        return ";".join(sorted(repr(tuple(float(x) for x in d.get("order", (1, 1)))) for _, _, d in g.edges(data=True)))
    if kind == "const":
        return "k"
    if kind == "list_elems":
        return list(els)
    if kind == "list_deg":
        return sorted(dg for _, dg in g.degree())
    if kind == "dict_elems":  # element -> count, like the repo's own 'atom_count' descriptor
        return {e: els.count(e) for e in els}
    if kind == "dict_elems_raw":
        # the same mapping with keys in first-seen NODE order (what dict(Counter(...)) gives): equal as a value for
        # isomorphic graphs, but its key order follows the node order of each copy
        out = {}
        for _, d in g.nodes(data=True):
            e = str(d.get("element", "*"))
            out[e] = out.get(e, 0) + 1
        return out
    raise ValueError(kind)


def entries(graphs, rule_key, kind):
    out = []
    for i, g in enumerate(graphs):
        e = {rule_key: g, "idx": i}
        if kind is not None:
            e[ATTR_KEY] = attr_of(g, kind)
        out.append(e)
    return out


# ---------------------------------------------------------------- reference
def _sig(g):
    nl = sorted((str(d.get("element", "*")), d.get("charge", 0)) for _, d in g.nodes(data=True))
    el = sorted(repr(tuple(float(x) for x in d["order"])) if isinstance(d.get("order"), tuple) else repr(d.get("order", 1)) for _, _, d in g.edges(data=True))
    return nl, el


def ref_iso(g1, g2):
    if _sig(g1) != _sig(g2):
        return False
    return iso.is_isomorphic(g1, g2, NODE_OK, EDGE_OK)


def ref_matrix(graphs):
    n = len(graphs)
    m = [[False] * n for _ in range(n)]
    for i in range(n):
        m[i][i] = True
        for j in range(i + 1, n):
            m[i][j] = m[j][i] = ref_iso(graphs[i], graphs[j])
    for i, j, k in itertools.product(range(n), repeat=3):
        if m[i][j] and m[j][k] and not m[i][k]:
            raise HarnessError("reference isomorphism relation is not transitive")
    return m


def partition_from_matrix(m):
    return frozenset(frozenset(j for j in range(len(m)) if m[i][j]) for i in range(len(m)))


def partition_from_classes(classes):
    d = {}
    for i, c in enumerate(classes):
        d.setdefault(c, set()).add(i)
    return frozenset(frozenset(s) for s in d.values())


def _fmt(p):
    return sorted(sorted(s) for s in p)


def _classes(data, where):
    out = []
    for e in data:
        c = e.get("class", None)
        if c is None or isinstance(c, bool) or not isinstance(c, int):
            raise Violation("class-missing", f"{where}: entry {e.get('idx')} has class {c!r}")
        out.append(c)
    return out


def _describe(case, graphs, m, rec):
    specs = case["items"]
    relabelled_dup = any(
        m[i][j] and set(graphs[i].nodes) != set(graphs[j].nodes) for i, j in itertools.combinations(range(len(graphs)), 2)
    )
    near = any(
        (not m[i][j]) and specs[i]["b"] == specs[j]["b"] and ((specs[i].get("edit") is None) != (specs[j].get("edit") is None))
        for i, j in itertools.combinations(range(len(graphs)), 2)
    )
    sym = any(
        m[i][j] and specs[i]["b"] == specs[j]["b"] and specs[i].get("edit") and specs[j].get("edit") and specs[i]["edit"] != specs[j]["edit"]
        for i, j in itertools.combinations(range(len(graphs)), 2)
    )
    rec.nt(relabelled_dup and near)
    if relabelled_dup:
        rec.label("relabelled-duplicate")
    if near:
        rec.label("near-miss-split")
    if sym:
        rec.label("different-edits-isomorphic")
    nclass = len(partition_from_matrix(m))
    rec.label(f"classes={min(nclass, 6)}{'+' if nclass >= 6 else ''}", f"attr={case.get('attr')}")
    if any(g.number_of_nodes() == 0 for g in graphs):
        rec.label("empty-centre")
    if any(not nx.is_connected(g) for g in graphs if g.number_of_nodes()):
        rec.label("disconnected-centre")
    rec.show(
        dict(
            items=[
                f"rxn{ s['b'] }" + (f" edit={s['edit']}" if s.get("edit") else "") + (" relabelled" if s.get("relabel") else "") + (" -q0" if s.get("dropq") else "")
                for s in specs
            ],
            attr=case.get("attr"),
            reference_partition=_fmt(partition_from_matrix(m)),
            **{k: case[k] for k in ("batch", "templates", "init", "chunks") if k in case},
        )
    )


def _order(case, n):
    keys = case.get("order") or [0]
    return chem_gen._perm_from_keys(keys, n)


# ---------------------------------------------------------------- sub 1: GraphCluster
def body_graph_cluster(case, rec):
    from synkit.Graph.Matcher.graph_cluster import GraphCluster

    graphs = [build_item(s) for s in case["items"]]
    m = ref_matrix(graphs)
    want = partition_from_matrix(m)
    _describe(case, graphs, m, rec)
    rk = RULE_KEYS[case.get("rk", 0) % 3]
    kind = case.get("attr")
    akey = ATTR_KEY if kind is not None else None

    data = entries(graphs, rk, kind)
    shared = GraphCluster()  # one object for both fits: the second result must not depend on the first
    out = shared.fit(data, rule_key=rk, attribute_key=akey)
    if out is None or len(out) != len(graphs) or [e.get("idx") for e in out] != list(range(len(graphs))):
        raise Violation("fit-shape", "GraphCluster.fit did not return the entries in the given order")
    got = partition_from_classes(_classes(out, "GraphCluster.fit"))
    if got != want:
        raise Violation("partition", f"GraphCluster.fit classes {_fmt(got)} != isomorphism classes {_fmt(want)} (attr={kind})")

    # list order must not matter
    perm = _order(case, len(graphs))
    data2 = entries([graphs[i] for i in perm], rk, kind)
    out2 = (shared if case.get("reuse", True) else GraphCluster()).fit(data2, rule_key=rk, attribute_key=akey)
    cl2 = _classes(out2, "GraphCluster.fit (second order)")
    back = [None] * len(graphs)
    for pos, i in enumerate(perm):
        back[i] = cl2[pos]
    got2 = partition_from_classes(back)
    if got2 != got:
        raise Violation("order-dependence", f"list order {perm}: {_fmt(got2)} vs original order {_fmt(got)}")
    if got2 != want:
        raise Violation("partition", f"second order: {_fmt(got2)} != {_fmt(want)}")

    # the lower-level entry point returns the same partition as (clusters, index->cluster)
    gc = GraphCluster()
    attrs = None if kind is None else [attr_of(g, kind) for g in graphs]
    clusters, r2c = gc.iterative_cluster(list(graphs), attrs, gc.nodeMatch, gc.edgeMatch)
    if sorted(r2c) != list(range(len(graphs))):
        raise Violation("class-missing", f"iterative_cluster assigns indices {sorted(r2c)} of {len(graphs)}")
    if frozenset(frozenset(c) for c in clusters) != want or sum(len(c) for c in clusters) != len(graphs):
        raise Violation("partition", f"iterative_cluster clusters {_fmt(clusters)} != {_fmt(want)}")
    if any(i not in clusters[r2c[i]] for i in range(len(graphs))):
        raise Violation("partition", "iterative_cluster: index->cluster map disagrees with the cluster list")


# ---------------------------------------------------------------- sub 2: BatchCluster.fit from scratch
def _check_templates(templates, rk, graphs_by_class, where):
    """templates: one representative per class id, graph isomorphic to the members of that class."""
    ids = [t.get("class") for t in templates]
    if len(set(ids)) != len(ids):
        raise Violation("representatives", f"{where}: class ids of the representatives repeat: {ids}")
    if set(ids) != set(graphs_by_class):
        raise Violation("representatives", f"{where}: representatives for classes {sorted(ids)} but items were given classes {sorted(graphs_by_class)}")
    for t in templates:
        g = t.get(rk)
        if not all(ref_iso(g, h) for h in graphs_by_class[t["class"]][:1]):
            raise Violation("representatives", f"{where}: representative of class {t['class']} is not isomorphic to the members of that class")


def _batch_fit(graphs, rk, kind, batch, templates_arg, where):
    from synkit.Graph.Matcher.batch_cluster import BatchCluster

    akey = ATTR_KEY if kind is not None else None
    data = entries(graphs, rk, kind)
    out, templates = BatchCluster().fit(data, templates_arg, rule_key=rk, attribute_key=akey, batch_size=batch)
    if len(out) != len(graphs) or [e.get("idx") for e in out] != list(range(len(graphs))):
        raise Violation("fit-shape", f"{where}: BatchCluster.fit did not return every entry once, in arrival order")
    cl = _classes(out, where)
    by = {}
    for g, c in zip(graphs, cl):
        by.setdefault(c, []).append(g)
    _check_templates(templates, rk, by, where)
    return cl


def body_batch_fit(case, rec):
    graphs = [build_item(s) for s in case["items"]]
    m = ref_matrix(graphs)
    want = partition_from_matrix(m)
    _describe(case, graphs, m, rec)
    rk = RULE_KEYS[case.get("rk", 0) % 3]
    kind = case.get("attr")
    batch = case.get("batch")
    targ = [] if case.get("templates") == "empty" else None
    rec.label("batch=none" if batch is None else ("batch=1" if batch == 1 else ("batch>=n" if batch >= len(graphs) else "batch=mid")))

    where = f"BatchCluster.fit(batch_size={batch}, attr={kind})"
    got = partition_from_classes(_batch_fit(graphs, rk, kind, batch, targ, where))
    if got != want:
        raise Violation("partition", f"{where}: classes {_fmt(got)} != isomorphism classes {_fmt(want)}")
    perm = _order(case, len(graphs))
    batch2 = case.get("batch2", batch)
    cl2 = _batch_fit([graphs[i] for i in perm], rk, kind, batch2, [] if targ is not None else None, where + " second arrival order")
    back = [None] * len(graphs)
    for pos, i in enumerate(perm):
        back[i] = cl2[pos]
    got2 = partition_from_classes(back)
    if got2 != got:
        raise Violation("order-dependence", f"arrival order {perm}, batch_size {batch2}: {_fmt(got2)} vs {_fmt(got)}")


# ---------------------------------------------------------------- sub 3: incremental classification
def body_incremental(case, rec):
    from synkit.Graph.Matcher.batch_cluster import BatchCluster

    graphs = [build_item(s) for s in case["items"]]
    m = ref_matrix(graphs)
    _describe(case, graphs, m, rec)
    rk = RULE_KEYS[case.get("rk", 0) % 3]
    kind = case.get("attr")
    akey = ATTR_KEY if kind is not None else None
    bc = BatchCluster()
    n = len(graphs)
    data = entries(graphs, rk, kind)

    # model: representatives = [(item index, class id)], used = every id ever handed out
    reps = []
    used = set()
    init = case.get("init") or ["none"]
    pos = 0
    if init[0] == "given":
        # existing representatives: the first item of each of the first k isomorphism classes, with generated distinct ids
        ids = []
        for x in init[2]:
            if x not in ids:
                ids.append(x)
        first = []
        for i in range(n):
            if not any(m[i][j] for j in first):
                first.append(i)
        first = first[: max(1, min(init[1], len(ids)))]
        templates = []
        for i, cid in zip(first, ids):
            t = dict(entries([graphs[i]], rk, kind)[0])
            t["idx"] = f"rep{i}"
            t["class"] = cid
            templates.append(t)
            reps.append((i, cid))
            used.add(cid)
        rec.label("init=given")
    elif init[0] == "fit":
        k = max(1, min(init[1], n))
        out, templates = bc.fit(data[:k], None, rule_key=rk, attribute_key=akey, batch_size=None)
        cl = _classes(out, "initial fit")
        _apply_model(graphs, m, list(range(k)), cl, reps, used, "initial BatchCluster.fit")
        _compare_templates(templates, reps, graphs, rk, "initial BatchCluster.fit")
        pos = k
        rec.label("init=fit")
    else:
        templates = [] if init[0] == "empty" else None
        rec.label("init=none")

    assigned = {}
    opi = 0
    chunks = case.get("chunks") or [["cluster", n]]
    while pos < n:
        op = chunks[opi % len(chunks)]
        opi += 1
        size = max(1, min(op[1], n - pos))
        idxs = list(range(pos, pos + size))
        if op[0] == "lib_check":
            idxs = idxs[:1]
            e, templates = bc.lib_check(data[idxs[0]], templates, rule_key=rk, attribute_key=akey)
            outs = [e]
            where = f"lib_check(item {idxs[0]})"
        elif op[0] == "cluster":
            outs, templates = bc.cluster([data[i] for i in idxs], templates if templates is not None else [], rule_key=rk, attribute_key=akey)
            where = f"cluster(items {idxs})"
        else:
            bs = op[2] if len(op) > 2 else None
            outs, templates = bc.fit([data[i] for i in idxs], templates, rule_key=rk, attribute_key=akey, batch_size=bs)
            where = f"fit(items {idxs}, batch_size={bs})"
        rec.label(f"op={op[0]}")
        if [e.get("idx") for e in outs] != idxs:
            raise Violation("fit-shape", f"{where}: returned entries {[e.get('idx') for e in outs]}")
        cl = _classes(outs, where)
        _apply_model(graphs, m, idxs, cl, reps, used, where)
        _compare_templates(templates, reps, graphs, rk, where)
        for i, c in zip(idxs, cl):
            assigned[i] = c
        pos += len(idxs)

    # end state: the classes handed out over the whole history are the isomorphism classes
    idx_all = sorted(assigned)
    for i, j in itertools.combinations(idx_all, 2):
        if (assigned[i] == assigned[j]) != m[i][j]:
            raise Violation("partition", f"after the whole history items {i},{j}: classes {assigned[i]},{assigned[j]} but isomorphic={m[i][j]}")


def _apply_model(graphs, m, idxs, classes, reps, used, where):
    """items idxs were classified (in this order) against the representatives `reps`; update reps / used."""
    before = list(reps)
    used_before = set(used)
    fresh = {}  # class id opened in this step -> first item index
    for i, c in zip(idxs, classes):
        hit = [cid for (r, cid) in before if m[i][r]]
        if len(hit) > 1:
            raise HarnessError("model representatives are not pairwise non-isomorphic")
        if hit:
            if c != hit[0]:
                raise Violation("joins-representative", f"{where}: item {i} is isomorphic to the representative of class {hit[0]} but got class {c}")
            continue
        # no existing representative: a fresh id, shared exactly with the isomorphic newcomers of this step
        if c in used_before:
            kind = "an id already in use" if c in {cid for _, cid in before} else "an id used before"
            raise Violation("fresh-class", f"{where}: item {i} matches no representative but got class {c}, {kind} ({sorted(used_before)})")
        if c in fresh:
            if not m[i][fresh[c]]:
                raise Violation("fresh-class", f"{where}: items {fresh[c]} and {i} are not isomorphic but share the new class {c}")
        else:
            other = [c2 for c2, j in fresh.items() if m[i][j]]
            if other:
                raise Violation("joins-representative", f"{where}: item {i} is isomorphic to item {fresh[other[0]]} (new class {other[0]}) but got class {c}")
            fresh[c] = i
            reps.append((i, c))
            used.add(c)


def _compare_templates(templates, reps, graphs, rk, where):
    if templates is None:
        raise Violation("representatives", f"{where}: no representative list returned")
    ids = [t.get("class") for t in templates]
    want = [cid for _, cid in reps]
    if sorted(ids, key=repr) != sorted(want, key=repr):
        raise Violation("representatives", f"{where}: representative classes {ids} != expected {want}")
    by = {cid: r for r, cid in reps}
    for t in templates:
        if not ref_iso(t[rk], graphs[by[t["class"]]]):
            raise Violation("representatives", f"{where}: stored representative of class {t['class']} is not isomorphic to its class")


# ---------------------------------------------------------------- generators
# ---------------------------------------------------------------- equal-by-value entries (the same graph object twice)
def body_twin_entries(case, rec):
    """Entries are plain {rule_key: graph} dicts without any distinguishing field, and some of them hold the very same
    graph object (data with repeated records): such entries compare equal as dicts.  Classification must still be by
    position: one-shot clustering, batched clustering with and without pre-existing representatives, all must give the
    reference partition of the positions."""
    from synkit.Graph.Matcher.batch_cluster import BatchCluster
    from synkit.Graph.Matcher.graph_cluster import GraphCluster

    built = [build_item(spec) for spec in case["items"]]
    pos = case["positions"]  # position -> index into built (repeats = the same object)
    graphs = [built[i % len(built)] for i in pos]
    rk = RULE_KEYS[case.get("rk", 0) % 3]
    want = partition_from_matrix(ref_matrix(graphs))
    twins = len(pos) - len({i % len(built) for i in pos})
    rec.nt(twins >= 1 and len(want) >= 2)
    rec.label(f"twin-records={min(twins, 4)}", f"classes={min(len(want), 5)}")
    rec.show(dict(n=len(graphs), positions=pos, batch=case["batch"], lib=case["lib"]))

    def data():
        return [{rk: g} for g in graphs]

    out = GraphCluster().fit(data(), rule_key=rk, attribute_key=None)
    got = partition_from_classes(_classes(out, "GraphCluster.fit"))
    if got != want:
        raise Violation("twins:one-shot", f"GraphCluster.fit classes {_fmt(got)} != isomorphism classes {_fmt(want)}")
    templates = None
    if case["lib"]:
        # representatives from a first pass over a library that is larger than the batches used afterwards
        _, templates = BatchCluster().fit([{rk: g} for g in built], None, rule_key=rk, attribute_key=None, batch_size=None)
    out2, _ = BatchCluster().fit(data(), templates, rule_key=rk, attribute_key=None, batch_size=case["batch"])
    if len(out2) != len(graphs):
        raise Violation("fit-shape", f"BatchCluster.fit returned {len(out2)} entries for {len(graphs)}")
    got2 = partition_from_classes(_classes(out2, "BatchCluster.fit"))
    if got2 != want:
        raise Violation("twins:batched", f"BatchCluster.fit(batch_size={case['batch']}, library={bool(case['lib'])}) classes {_fmt(got2)} != isomorphism classes {_fmt(want)}")


@st.composite
def cases_twins(draw, tier):
    items = draw(item_lists(max_items=8))
    n = draw(st.integers(3, 12))
    return dict(
        items=items,
        positions=draw(st.lists(st.integers(0, len(items) - 1), min_size=n, max_size=n)),
        rk=draw(st.integers(0, 2)),
        batch=draw(st.sampled_from([None, 1, 2, 3, 4])),
        lib=draw(st.booleans()),
    )


def _keys():
    return st.lists(st.integers(0, 10**6), min_size=3, max_size=8)


@st.composite
def item_lists(draw, max_items=14):
    nb = draw(st.integers(1, 5))
    ncorp = chem_gen.corpus_size()
    bases = draw(st.lists(st.integers(0, ncorp - 1), min_size=nb, max_size=nb))
    # a few edits shared by the whole list so that the same near-miss can occur on several copies
    edit = st.one_of(
        st.tuples(st.just("charge"), st.integers(0, 15), st.sampled_from([1, -1])),
        st.tuples(st.just("order"), st.integers(0, 15), st.integers(0, 1), st.integers(0, 3)),
    ).map(list)
    edits = draw(st.lists(edit, min_size=1, max_size=3))
    n = draw(st.integers(2, max_items))
    items = []
    for _ in range(n):
        items.append(
            dict(
                b=draw(st.sampled_from(bases)),
                edit=draw(st.sampled_from([None, None, None] + edits)),
                relabel=draw(st.one_of(st.none(), _keys(), _keys())),
                dropq=draw(st.sampled_from([False, False, False, True])),
            )
        )
    return items


def _common(draw, items):
    return dict(
        items=items,
        attr=draw(st.sampled_from(ATTR_KINDS + [None, None])),
        rk=draw(st.integers(0, 2)),
        order=draw(_keys()),
    )


@st.composite
def cases_gc(draw, tier):
    return _common(draw, draw(item_lists()))


@st.composite
def cases_bf(draw, tier):
    items = draw(item_lists())
    c = _common(draw, items)
    n = len(items)
    bs = st.one_of(st.none(), st.integers(1, n + 2), st.sampled_from([1, 2, 3]))
    c["batch"] = draw(bs)
    c["batch2"] = draw(bs)
    c["templates"] = draw(st.sampled_from(["none", "empty"]))
    return c


@st.composite
def cases_inc(draw, tier):
    items = draw(item_lists())
    c = _common(draw, items)
    n = len(items)
    init = draw(
        st.one_of(
            st.just(["none"]),
            st.just(["empty"]),
            st.tuples(st.just("fit"), st.integers(1, max(1, n - 1))).map(list),
            st.tuples(st.just("given"), st.integers(1, 4), st.lists(st.integers(0, 12), min_size=1, max_size=4, unique=True)).map(list),
            st.tuples(st.just("given"), st.integers(1, 4), st.lists(st.integers(0, 12), min_size=1, max_size=4, unique=True)).map(list),
        )
    )
    op = st.one_of(
        st.tuples(st.just("lib_check"), st.just(1)).map(list),
        st.tuples(st.just("cluster"), st.integers(1, 5)).map(list),
        st.tuples(st.just("fit"), st.integers(1, 6), st.one_of(st.none(), st.integers(1, 4))).map(list),
    )
    c["init"] = init
    c["chunks"] = draw(st.lists(op, min_size=1, max_size=6))
    return c


SUBS = [
    Sub("graph_cluster", body_graph_cluster, strategy=cases_gc, examples={"quick": 3000, "thorough": 40000}, shards={"quick": 16, "thorough": 16},
        doc="GraphCluster.fit (two list orders) and iterative_cluster vs the reference isomorphism partition"),
    Sub("batch_fit", body_batch_fit, strategy=cases_bf, examples={"quick": 3000, "thorough": 40000}, shards={"quick": 16, "thorough": 16},
        doc="BatchCluster.fit from scratch with generated batch sizes and two arrival orders; returned representatives"),
    Sub("incremental", body_incremental, strategy=cases_inc, examples={"quick": 3000, "thorough": 40000}, shards={"quick": 16, "thorough": 16},
        doc="histories of lib_check / cluster / fit against existing representatives (none, from a first fit, or given "
            "with arbitrary ids): joins the isomorphic representative's class or opens an unused id"),
    Sub("twin_entries", body_twin_entries, strategy=cases_twins, examples={"quick": 2400, "thorough": 30000}, shards={"quick": 16, "thorough": 16},
        doc="entries without any distinguishing field, some holding the very same graph object (equal as dicts): one-shot and batched clustering, with and without a larger pre-existing library, against the reference partition of the positions"),
]
