"""C02 - the reaction centre is exactly the set of changed bonds; the radius-k context grows monotonically."""
from __future__ import annotations

import itertools
import os

import networkx as nx
from hypothesis import strategies as st

from vlib import c0102_pairs as P
from vlib import chem_gen
from vlib.runner import Sub, Violation

PROPERTY = "C02"
RULE = (
    "corpus: ITS (rsmi_to_its, default construction) of one of the 340 well-formed corpus reactions under "
    "renumbering / re-ordering / fragment shuffle / reversal / added explicit spectator hydrogens, plus a second "
    "generated atom-map permutation pi for the relabelling relation. synthetic: ITSGraph(G,H) of generated pairs "
    "on one node set with the same element on both sides, 2..12 atoms, tree-like with extra bonds, bond states "
    "{absent,1,1.5,2,3} per side (mostly unchanged so that the centre is local), hydrogens incl. H-H bonds, and "
    "every such pair on n<=3 over elements {C,H} (bond states {absent,1,1.5,2}^2 in quick, all five in thorough); "
    "radii 0..3. The centre is recomputed from the 'order' pairs and 'element' only (get_rc reads standard_order), "
    "balls by an own BFS. Non-trivial = centre non-empty and K1 strictly larger than K0 and K2 strictly larger "
    "than K1; distinct by JSON case."
)
ASSUMPTIONS = [
    "ITS graphs are those produced by ITSConstruction.ITSGraph with ignore_aromaticity=False (default)",
    "get_rc defaults: element_key=[element, charge, typesGH, atom_map], disconnected=False, keep_mtg=False",
    "the extra edge attribute 'is_mtg' that get_rc attaches is neither required nor forbidden by the oracle",
    "an atom keeps its element across the reaction, so 'hydrogen-hydrogen bond' is unambiguous",
]

RC_NODE_KEYS = ("element", "charge", "typesGH", "atom_map")
RC_EDGE_KEYS = ("order", "standard_order")


def _views(g):
    return P.nodes_view(g), P.edges_view(g)


def _same_graph(a, b, clause, what, la, lb):
    na, ea = _views(a)
    nb, eb = _views(b)
    d = P.diff_views(na, nb, f"{what}: atom", la, lb) or P.diff_views(ea, eb, f"{what}: bond", la, lb)
    if d:
        raise Violation(clause, d)


def check_centre_and_context(its, rec, ctx=""):
    """Everything C02 states about one ITS graph.  Returns (rc, E*, V*)."""
    from synkit.Graph.Context.radius_expand import RadiusExpand
    from synkit.Graph.ITS.its_decompose import get_rc

    its_nodes, its_edges = _views(its)  # snapshot before any call: the oracle reads only this
    E, V = P.reference_centre(its)
    rc = get_rc(its)
    if not isinstance(rc, nx.Graph):
        raise Violation("rc:type", f"get_rc returned {type(rc).__name__}")
    got_e = set(P.edges_view(rc))
    if got_e != E:
        extra = sorted(got_e - E)[:4]
        miss = sorted(E - got_e)[:4]
        raise Violation(
            "rc:bonds",
            f"{ctx}centre has unchanged bonds {[(e, its_edges[e]['order']) for e in extra if e in its_edges] or extra}, "
            f"misses changed/H-H bonds {[(e, its_edges[e]['order']) for e in miss]}",
        )
    if set(rc.nodes) != V:
        raise Violation("rc:atoms", f"{ctx}centre atoms {sorted(rc.nodes)} != endpoints of its bonds {sorted(V)}")
    for n in V:
        want = {k: its_nodes[n][k] for k in RC_NODE_KEYS if k in its_nodes[n]}
        if dict(rc.nodes[n]) != want:
            raise Violation("rc:atom-labels", f"{ctx}atom {n}: centre label {dict(rc.nodes[n])} != ITS label {want}")
    rce = P.edges_view(rc, RC_EDGE_KEYS)
    for e in E:
        want = {k: its_edges[e][k] for k in RC_EDGE_KEYS}
        if rce[e] != want:
            raise Violation("rc:bond-labels", f"{ctx}bond {e}: centre label {rce[e]} != ITS label {want}")

    # the centre of a centre is itself
    rc2 = get_rc(rc)
    _same_graph(rc2, rc, "rc:idempotent", f"{ctx}get_rc(get_rc(x)) vs get_rc(x)", "second", "first")

    # contexts
    prev_n, prev_e = None, None
    sizes = []
    for k in range(4):
        K = RadiusExpand.extract_k(its, k)
        if not isinstance(K, nx.Graph):
            raise Violation("context:type", f"extract_k(its, {k}) returned {type(K).__name__}")
        kn, ke = _views(K)
        if k == 0:
            _same_graph(K, rc, "context:k0", f"{ctx}extract_k(its, 0) vs get_rc(its)", "context", "centre")
        else:
            B = P.ball(its, V, k)
            if set(kn) != B:
                raise Violation(
                    "context:ball",
                    f"{ctx}radius {k}: context atoms minus ball {sorted(set(kn) - B)[:5]}, ball minus context {sorted(B - set(kn))[:5]}",
                )
            want_n = {n: its_nodes[n] for n in B}
            want_e = {e: d for e, d in its_edges.items() if e[0] in B and e[1] in B}
            d = P.diff_views(kn, want_n, f"{ctx}radius {k}: atom", "context", "ITS") or P.diff_views(
                ke, want_e, f"{ctx}radius {k}: bond", "context", "induced ITS subgraph"
            )
            if d:
                raise Violation("context:induced", d)
        if prev_n is not None and not (prev_n <= set(kn) and prev_e <= set(ke)):
            raise Violation("context:chain", f"{ctx}context({k - 1}) is not contained in context({k})")
        prev_n, prev_e = set(kn), set(ke)
        sizes.append(len(kn))
    if not (prev_n <= set(its_nodes) and prev_e <= set(its_edges)):
        raise Violation("context:chain", f"{ctx}context(3) is not contained in the ITS")

    rec.nt(bool(V) and sizes[1] > sizes[0] and sizes[2] > sizes[1])
    rec.label("centre-empty" if not V else f"centre-bonds={min(len(E), 6)}")
    if V:
        rec.label("K3>K2" if sizes[3] > sizes[2] else "K3=K2")
    hh = [e for e in E if its_nodes[e[0]].get("element") == "H" and its_nodes[e[1]].get("element") == "H"]
    if hh:
        rec.label("H-H bond")
        if any(its_edges[e]["order"][0] == its_edges[e]["order"][1] for e in hh):
            rec.label("H-H bond unchanged")
    if any(1.5 in its_edges[e]["order"] and abs(its_edges[e]["order"][0] - its_edges[e]["order"][1]) < 1 for e in E):
        rec.label("change<1 (aromatic)")
    if any(its_edges[e]["order"][0] == 0 for e in E):
        rec.label("bond formed")
    if any(its_edges[e]["order"][1] == 0 for e in E):
        rec.label("bond broken")
    return rc, E, V, sizes


# ---------------------------------------------------------------- corpus
def body_corpus(case, rec):
    from synkit.Graph.ITS.its_decompose import get_rc
    from synkit.IO.chem_converter import rsmi_to_its

    corpus = chem_gen.corpus() + VENDORED
    rsmi, src, style = corpus[case["rxn"] % len(corpus)]
    base, newh = P.explicit_h_variant(rsmi, case.get("hx") or [])
    v = chem_gen.variant(base, case["spec"])
    its = rsmi_to_its(v)
    rc, E, V, sizes = check_centre_and_context(its, rec)
    rec.label(f"style={style}")
    rec.show(dict(rsmi=v, centre=sorted(E), context_sizes=sizes))

    # the same centre from the chemistry (RDKit-only reference ITS)
    _, _, ref = chem_gen.reference_its(v)
    E_ref = set()
    for a, b, d in ref.edges(data=True):
        hh = ref.nodes[a]["tG"][0] == "H" and ref.nodes[b]["tG"][0] == "H"
        if d["order"][0] != d["order"][1] or hh:
            E_ref.add(P.ekey(a, b))
    if E_ref != E:
        raise Violation("rc:vs-chemistry", f"{v}: changed bonds by RDKit {sorted(E_ref)} != changed bonds in the ITS {sorted(E)}")

    # core=True is the same thing
    core = rsmi_to_its(v, core=True)
    _same_graph(core, rc, "core-flag", f"{v}: rsmi_to_its(core=True) vs get_rc(rsmi_to_its())", "core", "centre")

    # renumbering the atom maps relabels the centre and nothing else
    v_pi, pi = chem_gen.renumber_maps(v, case["pi"], case.get("offset", 0))
    rc_pi = get_rc(rsmi_to_its(v_pi))
    _same_graph(rc_pi, P.relabel_graph(rc, pi), "renumber", f"{v} renumbered by {pi}", "centre of renumbered", "renumbered centre")
    if any(k != x for k, x in pi.items()):
        rec.label("pi-nontrivial")


def _spec():
    """chem_gen's representation-change spec plus an offset for the renumbered maps (non-contiguous numbering)"""
    return st.tuples(chem_gen.variant_spec_strategy(reverse=True), st.sampled_from([0, 0, 13, 500])).map(lambda t: dict(t[0], offset=t[1]))


# Mapped reactions the corpora do not contain: bond-order shifts along conjugated chains of 5-8 atoms (pericyclic
# reactions, conjugate additions), where a changed bond can have end atoms whose whole neighbourhood is otherwise
# unchanged.  (rsmi, source tag, hydrogen style) like chem_gen.corpus() entries; all fully mapped and balanced.
VENDORED = tuple(
    (r, "vendored", "implicit")
    for r in (
        "[CH2:1]=[CH:2][CH:3]=[CH:4][CH:5]=[CH2:6]>>[CH2:1]1[CH:2]=[CH:3][CH:4]=[CH:5][CH2:6]1",
        "[CH2:1]=[CH:2][CH2:3][CH2:4][CH:5]=[CH2:6]>>[CH2:3]=[CH:2][CH2:1][CH2:6][CH:5]=[CH2:4]",
        "[CH2:1]=[CH:2][CH:3]=[CH:4][CH:5]=[O:6].[OH2:7]>>[OH:7][CH2:1][CH:2]=[CH:3][CH:4]=[CH:5][OH:6]",
        "[CH2:1]=[CH:2][CH:3]=[CH:4][CH:5]=[CH:6][CH:7]=[CH2:8]>>[CH2:1]1[CH:2]=[CH:3][CH:4]=[CH:5][CH:6]=[CH:7][CH2:8]1",
        "[CH2:1]=[CH:2][CH:3]=[CH2:4].[CH2:5]=[CH2:6]>>[CH2:1]1[CH:2]=[CH:3][CH2:4][CH2:5][CH2:6]1",
        "[CH2:1]=[CH:2][CH2:3][O:4][CH:5]=[CH2:6]>>[CH2:3]=[CH:2][CH2:1][CH2:6][CH:5]=[O:4]",
        "[CH3:9][CH:1]=[CH:2][CH:3]=[CH:4][CH:5]=[CH:6][CH3:10]>>[CH3:9][CH:1]1[CH:2]=[CH:3][CH:4]=[CH:5][CH:6]1[CH3:10]",
        "[CH2:1]=[CH:2][CH:3]=[CH:4][CH:5]=[CH:6][C:7]#[N:8].[NH3:9]>>[NH2:9][CH2:1][CH:2]=[CH:3][CH:4]=[CH:5][CH2:6][C:7]#[N:8]",
    )
)
for _r, _, _ in VENDORED:
    assert chem_gen._well_formed(_r), f"vendored reaction is not well formed: {_r}"


def strat_corpus(tier):
    n = chem_gen.corpus_size() + len(VENDORED)
    return st.fixed_dictionaries(
        dict(
            rxn=st.integers(0, n - 1),
            spec=_spec(),
            hx=st.one_of(st.none(), st.lists(st.integers(0, 10**4), min_size=1, max_size=3)),
            pi=st.lists(st.integers(0, 10**6), min_size=4, max_size=24),
            offset=st.sampled_from([0, 0, 7, 100]),
        )
    )


def enum_corpus_plain(tier):
    for i in range(chem_gen.corpus_size() + len(VENDORED)):
        yield dict(rxn=i, spec=dict(maps=None, atoms=None, frags=None, reverse=False), hx=None, pi=[(i * 7919 + j * 104729) % 1000 for j in range(17)], offset=0)


# ---------------------------------------------------------------- synthetic ITS graphs
def body_pair(case, rec):
    from synkit.Graph.ITS.its_construction import ITSConstruction
    from synkit.Graph.ITS.its_decompose import get_rc

    G, H = P.build_pair(case)
    its = ITSConstruction.ITSGraph(G, H)
    rc, E, V, sizes = check_centre_and_context(its, rec, ctx=P.pair_str(case) + ": ")
    rec.label(f"n={min(len(case['ids']) // 2 * 2, 12)}")
    rec.show(dict(pair=P.pair_str(case), centre=sorted(E), context_sizes=sizes))

    newids = case.get("pi")
    if newids:
        pi = dict(zip(case["ids"], newids))
        G2, H2 = P.build_pair(case, relabel=pi, rev_nodes=True)
        rc_pi = get_rc(ITSConstruction.ITSGraph(G2, H2))
        _same_graph(rc_pi, P.relabel_graph(rc, pi), "renumber", f"{P.pair_str(case)} renumbered by {pi}", "centre of renumbered", "renumbered centre")


@st.composite
def strat_pair_cases(draw, tier="quick"):
    c = draw(
        st.one_of(
            P.pair_cases(min_nodes=3, max_nodes=12, shared_element=True, dense=False, p_change=0.3),
            P.pair_cases(min_nodes=3, max_nodes=12, shared_element=True, dense=False, p_change=0.3),
            P.pair_cases(min_nodes=2, max_nodes=6, elements=("H", "H", "C", "O"), shared_element=True, dense=True, p_change=0.3),
        )
    )
    n = len(c["ids"])
    c["pi"] = draw(st.lists(st.integers(1, 90), min_size=n, max_size=n, unique=True))
    return c


def strat_pair(tier):
    return strat_pair_cases(tier)


def enum_small(tier):
    """every ITS on n <= 3 atoms over elements {C, H} (same element on both sides) and all bond-state pairs"""
    states = P.STATES if tier == "thorough" else (0, 1, 1.5, 2)
    lab = {"C": ["C", False, 1, 0, ["C"]], "H": ["H", False, 0, 0, []]}
    idpool = [9, 2, 14]
    newpool = [5, 21, 3]
    count = 0
    for n in (1, 2, 3):
        slots = [(i, j) for i in range(n) for j in range(i + 1, n)]
        for els in itertools.product("CH", repeat=n):
            for es in itertools.product(itertools.product(states, repeat=2), repeat=len(slots)):
                count += 1
                k = count
                e = []
                for (i, j), (sg, sh) in zip(slots, es):
                    if sg or sh:
                        e.append([i, j, sg, sh, bool(k & 1), bool(k & 2)])
                        k >>= 2
                g = [list(lab[x]) for x in els]
                h = [list(lab[x]) for x in els]
                if count & 4 and n:
                    h[0][3] = 1  # a charge change on the first atom
                yield dict(ids=idpool[:n], hperm=list(range(n))[::-1], g=g, h=h, e=e, erev=bool(count & 8), amap=not (count & 16), pi=newpool[:n])


SUBS = [
    Sub("corpus_plain", body_corpus, enum=enum_corpus_plain, exhaustive=True, shards={"quick": 8, "thorough": 16},
        doc="all 340 corpus reactions as written: centre, idempotence, contexts 0..3, core flag, one renumbering"),
    Sub("corpus_variants", body_corpus, strategy=strat_corpus, examples={"quick": 1400, "thorough": 14000},
        shards={"quick": 16, "thorough": 16}, doc="corpus reactions under representation changes and generated renumberings"),
    Sub("small_exhaustive", body_pair, enum=enum_small, exhaustive=True, shards={"quick": 8, "thorough": 16},
        doc="every ITS on n<=3 atoms over {C,H}; bond states {0,1,1.5,2}^2 (quick) / {0,1,1.5,2,3}^2 (thorough)"),
    Sub("synthetic", body_pair, strategy=strat_pair, examples={"quick": 4000, "thorough": 100000},
        shards={"quick": 8, "thorough": 16}, doc="ITSGraph of generated pairs, 2..12 atoms, incl. H-H bonds and aromatic orders"),
]
