"""C16 - network views (bipartite, reaction strings, species graph) round-trip exactly."""
from __future__ import annotations

from collections import Counter

from hypothesis import strategies as st

from vlib import crn_gen
from vlib.runner import Sub, Violation

PROPERTY = "C16"
RULE = (
    "networks over up to 8 species / 10 reactions with catalysts, duplicate reactions, source/sink reactions, "
    "coefficients up to 12 and molecule labels; every export flag combination that is documented as invertible. "
    "Exhaustive slice: all networks over 3 species with <= 2 reactions (coefficients 0..2). Oracle = round trip "
    "(export, import, compare edge lists / multisets). Non-trivial = network with a catalyst, or two reactions "
    "sharing a (reactant, product) species pair, or a coefficient >= 10; distinct by reaction list + flags."
)


def edge_rows(H, with_ids=True):
    rows = []
    for eid, e in H.edges.items():
        row = (e.rule, tuple(sorted(e.reactants.items())), tuple(sorted(e.products.items())))
        rows.append(((eid,) + row) if with_ids else row)
    return rows


def classify(case, rec):
    rx = case["rx"]
    cat = any(set(r) & set(p) for r, p, _ in rx)
    pairs = Counter()
    for r, p, _ in rx:
        for a in r:
            for b in p:
                pairs[(a, b)] += 1
    shared = any(v > 1 for v in pairs.values())
    big = any(c >= 10 for r, p, _ in rx for c in list(r.values()) + list(p.values()))
    empty = any((not r) or (not p) for r, p, _ in rx)
    dup = len({(tuple(sorted(r.items())), tuple(sorted(p.items()))) for r, p, _ in rx}) < len(rx)
    for name, f in (("catalyst", cat), ("shared_pair", shared), ("coef>=10", big), ("empty_side", empty), ("duplicate_rxn", dup)):
        if f:
            rec.label(name)
    rec.nt(cat or shared or big)
    rec.show(dict(reactions=crn_gen.rx_str(case), flags={k: v for k, v in case.items() if k != "rx"}))


def _build(case):
    ids = case.get("ids")
    H = crn_gen.build(case, explicit_ids=ids)
    if case.get("mol"):
        H.set_mol_map({k: v for k, v in case["mol"].items() if k in H.species}, strict=True)
    for s in case.get("strip") or []:
        # strip a species from every reaction but keep it in the network: an isolated (reaction-less) species
        if s in H.species and len(H.edges) > 1:
            H.remove_species(s, prune_orphans=False)
    return H


def body_bipartite(case, rec):
    from synkit.CRN.Hypergraph.conversion import bipartite_to_hypergraph, hypergraph_to_bipartite

    classify(case, rec)
    H = _build(case)
    before = sorted(edge_rows(H))
    kw = dict(
        integer_ids=case["integer_ids"],
        include_role=case["include_role"],
        include_isolated_species=case["isolated"],
        include_stoich=True,
        include_mol=True,
        include_edge_id_attr=case["with_ids"],
    )
    if case["no_prefix"] and not case["integer_ids"]:
        kw.update(species_prefix=None, reaction_prefix=None)
    G = hypergraph_to_bipartite(H, **kw)
    if sorted(edge_rows(H)) != before:
        raise Violation("input-mutated", "export changed the network")
    H2 = bipartite_to_hypergraph(G)
    if case["with_ids"]:
        a, b = sorted(edge_rows(H)), sorted(edge_rows(H2))
        if a != b:
            raise Violation("bipartite-roundtrip", f"{a} != {b}")
    else:
        a, b = Counter(edge_rows(H, False)), Counter(edge_rows(H2, False))
        if a != b:
            raise Violation("bipartite-roundtrip-noids", f"{sorted(a.items())} != {sorted(b.items())}")
    occurring = {x for e in H.edges.values() for x in list(e.reactants.keys()) + list(e.products.keys())}
    # a reaction-less species cannot be re-created on import (the store has no way to add one) and the statement
    # speaks of reactions and their labels: only species occurring in reactions are compared
    want_species = occurring
    want_mol = {k: v for k, v in H.species_to_mol.items() if k in want_species}
    if set(H.species) - occurring:
        rec.label("has-isolated-species")
    if want_mol != dict(H2.species_to_mol):
        raise Violation("bipartite-mol", f"{want_mol} != {dict(H2.species_to_mol)}")
    if set(H2.species) != want_species:
        raise Violation("bipartite-species", f"{sorted(want_species)} != {sorted(H2.species)}")


def body_strings(case, rec):
    from synkit.CRN.Hypergraph.conversion import hypergraph_to_rxn_strings, rxns_to_hypergraph

    classify(case, rec)
    H = _build(case)
    lines = hypergraph_to_rxn_strings(H, include_rule_suffix=True, include_edge_id=case["with_ids"], sort=case["sort"])
    if len(lines) != len(H.edges):
        raise Violation("strings-count", f"{len(lines)} lines for {len(H.edges)} reactions")
    H2 = rxns_to_hypergraph(lines)
    a, b = Counter(edge_rows(H, False)), Counter(edge_rows(H2, False))
    if a != b:
        raise Violation("strings-roundtrip", f"{lines}: {sorted(a.items())} != {sorted(b.items())}")
    # second route documented on the class itself
    from synkit.CRN.Hypergraph.hypergraph import CRNHyperGraph

    H3 = CRNHyperGraph().parse_rxns(lines)
    if Counter(edge_rows(H3, False)) != a:
        raise Violation("strings-roundtrip-parse_rxns", f"{lines}")


def body_strings_after_history(case, rec):
    """The string round trip must also hold after other networks parsed from the same texts have been edited in
    place (remove_species strips a species from stored sides): parsing must not hand out shared mutable state."""
    from synkit.CRN.Hypergraph.conversion import hypergraph_to_rxn_strings, rxns_to_hypergraph

    H = _build(case)
    lines = hypergraph_to_rxn_strings(H, include_rule_suffix=True, include_edge_id=False, sort=True)
    scratch = rxns_to_hypergraph(lines)
    touched = False
    for s in case.get("victims", []):
        if s in scratch.species:
            scratch.remove_species(s, prune_orphans=bool(case.get("prune", True)))
            touched = True
    body_strings(dict(case, with_ids=False, sort=True), rec)
    rec.label("edited-a-parsed-twin" if touched else "no-edit")
    rec.nontrivial = bool(touched)


def body_species(case, rec):
    from synkit.CRN.Hypergraph.conversion import hypergraph_to_species_graph, species_graph_to_hypergraph

    classify(case, rec)
    H = _build(case)
    S = hypergraph_to_species_graph(H, include_mol=True)
    H2 = species_graph_to_hypergraph(S)
    a = sorted((eid, r, p) for eid, _, r, p in edge_rows(H))
    b = sorted((eid, r, p) for eid, _, r, p in edge_rows(H2))
    if a != b:
        raise Violation("species-roundtrip", f"{a} != {b}")
    if dict(H.species_to_mol) != dict(H2.species_to_mol):
        raise Violation("species-mol", f"{dict(H.species_to_mol)} != {dict(H2.species_to_mol)}")


def _coef_boost(net):
    return net


def _net(allow_empty, tier):
    big = st.integers(1, 12)

    def boost(case, picks):
        # raise some coefficients above 9 (multi-digit parsing)
        rx = case["rx"]
        k = 0
        for r, p, _ in rx:
            for d in (r, p):
                for s in list(d):
                    if k < len(picks) and picks[k] is not None:
                        d[s] = picks[k]
                    k += 1
        return case

    base = crn_gen.net_strategy(max_species=8, max_rxn=10, max_coef=3, allow_empty_side=allow_empty)
    return st.builds(boost, base, st.lists(st.one_of(st.none(), st.none(), big), max_size=12))


def _with_common(strat, extra):
    def add(case, ex, mol, use_ids):
        case = dict(case)
        case.update(ex)
        sp = sorted({s for r, p, _ in case["rx"] for s in list(r) + list(p)})
        case["mol"] = {s: m for s, m in zip(sp, mol) if m is not None}
        if use_ids:
            case["ids"] = [f"e{i}" if i % 2 else f"{rule}_{i + 1}" for i, (_, _, rule) in enumerate(case["rx"])]
        return case

    return st.builds(add, strat, extra, st.lists(st.sampled_from([None, "CCO", "m1", "O=C=O"]), max_size=8), st.booleans())


def strat_bipartite(tier):
    flags = st.fixed_dictionaries(
        dict(integer_ids=st.booleans(), include_role=st.booleans(), isolated=st.booleans(), no_prefix=st.booleans(), with_ids=st.sampled_from([True, True, False]),
             strip=st.one_of(st.just([]), st.just([]), st.lists(st.sampled_from(crn_gen.SPECIES[:5]), min_size=1, max_size=2)))
    )
    return _with_common(_net(True, tier), flags)


def strat_strings(tier):
    return _with_common(_net(True, tier), st.fixed_dictionaries(dict(with_ids=st.booleans(), sort=st.booleans())))


def strat_strings_history(tier):
    return _with_common(
        _net(True, tier),
        st.fixed_dictionaries(dict(victims=st.lists(st.sampled_from(crn_gen.SPECIES[:6]), min_size=1, max_size=2), prune=st.booleans())),
    )


def strat_species(tier):
    return _with_common(_net(False, tier), st.just({}))


def _enum(kind):
    def gen(tier):
        for case in crn_gen.enum_networks(["A", "B", "C"], (0, 1, 2), 2 if tier == "thorough" else 1, allow_empty_side=(kind != "species")):
            c = dict(case)
            if kind == "bipartite":
                for integer_ids in (False, True):
                    yield dict(c, integer_ids=integer_ids, include_role=True, isolated=True, no_prefix=False, with_ids=True)
            elif kind == "strings":
                yield dict(c, with_ids=False, sort=True)
            else:
                yield c

    return gen


SUBS = [
    Sub("bipartite", body_bipartite, strategy=strat_bipartite, examples={"quick": 8000, "thorough": 200000}, shards={"quick": 5, "thorough": 5}),
    Sub("strings", body_strings, strategy=strat_strings, examples={"quick": 8000, "thorough": 200000}, shards={"quick": 5, "thorough": 5}),
    Sub("strings_after_history", body_strings_after_history, strategy=strat_strings_history, examples={"quick": 4000, "thorough": 60000}, shards={"quick": 3, "thorough": 6}),
    Sub("species_graph", body_species, strategy=strat_species, examples={"quick": 8000, "thorough": 200000}, shards={"quick": 5, "thorough": 5}),
    Sub("bipartite_small", body_bipartite, enum=_enum("bipartite"), exhaustive=True, shards={"quick": 1, "thorough": 16}),
    Sub("strings_small", body_strings, enum=_enum("strings"), exhaustive=True, shards={"quick": 1, "thorough": 16}),
    Sub("species_small", body_species, enum=_enum("species"), exhaustive=True, shards={"quick": 1, "thorough": 16}),
]
