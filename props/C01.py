"""C01 - the ITS encoding of a mapped reaction is lossless and invertible."""
from __future__ import annotations

import os

import networkx as nx
from hypothesis import strategies as st

from vlib import c0102_pairs as P
from vlib import chem_gen
from vlib.oracles import iso
from vlib.runner import Sub, Violation

PROPERTY = "C01"
RULE = (
    "corpus: one of the 340 well-formed corpus reactions, optionally with up to 3 implicit hydrogens turned into "
    "mapped spectator H atoms, then any combination of atom-map renumbering / atom re-ordering (re-rooting, ring "
    "digits) / fragment shuffle / reversal (each asserted chemistry-preserving in the generator); reference side "
    "graphs and ITS are rebuilt with RDKit only. pairs: (G,H) on one node set, n<=6 (Hypothesis) and every pair "
    "on n<=3 over 2 labels per side and bond states {absent,1,1.5,2,3}^2 (thorough; n<=2 plus every 50th n=3 in "
    "quick), independent per-side attributes, non-contiguous ids, both edge orientations and insertion orders. "
    "Non-trivial = at least one bond present on one side only AND at least one bond whose two non-zero orders "
    "differ; distinct by JSON case."
)
ASSUMPTIONS = [
    "hcount is RDKit GetTotalNumHs() without explicit-H neighbours; explicit mapped [H] atoms are graph nodes",
    "its_decompose does not restore 'neighbors' (documented by the commented-out lines); it is not compared",
    "its_to_rsmi default mode keeps exactly the hydrogens of the reaction centre (changed bond or H-H bond)",
]

NODE_KEYS = ("element", "aromatic", "hcount", "charge", "neighbors")


# ---------------------------------------------------------------- oracle pieces
def check_invariant(its, G, H, tag, store=False):
    """ITS == union of G and H with (before, after) labels - from the definition."""
    ref_nodes, ref_edges = P.reference_its_of(G, H)
    if set(its.nodes) != set(ref_nodes):
        raise Violation(f"{tag}:nodes", f"ITS nodes {sorted(its.nodes)} != union {sorted(ref_nodes)}")
    for n, (tg, th) in ref_nodes.items():
        got = its.nodes[n].get("typesGH")
        if not (isinstance(got, tuple) and len(got) == 2 and tuple(got[0]) == tg and tuple(got[1]) == th):
            raise Violation(f"{tag}:typesGH", f"node {n}: typesGH {got} != ({tg}, {th})")
        for i, k in enumerate(NODE_KEYS):
            want = (tg[i], th[i]) if store else tg[i]
            if its.nodes[n].get(k, "<missing>") != want:
                raise Violation(f"{tag}:node-attr", f"node {n}: {k}={its.nodes[n].get(k, '<missing>')!r}, documented value {want!r}")
    got_e = P.edges_view(its, ("order", "standard_order"))
    if set(got_e) != set(ref_edges):
        raise Violation(
            f"{tag}:edges",
            f"ITS bonds only in result {sorted(set(got_e) - set(ref_edges))[:4]}, missing {sorted(set(ref_edges) - set(got_e))[:4]}",
        )
    for k, (og, oh) in ref_edges.items():
        o = got_e[k]["order"]
        if not (isinstance(o, tuple) and len(o) == 2 and o[0] == og and o[1] == oh):
            raise Violation(f"{tag}:order", f"bond {k}: order {o} != ({og}, {oh})")
        if got_e[k]["standard_order"] != og - oh:
            raise Violation(f"{tag}:standard_order", f"bond {k}: standard_order {got_e[k]['standard_order']} != {og}-{oh}")
    return ref_edges


def check_decompose(Gd, Hd, G, H, tag):
    for side, got, ref in (("G", Gd, G), ("H", Hd, H)):
        want_n = {n: dict({k: ref.nodes[n][k] for k in P.ATTRS}, atom_map=n) for n in ref}
        d = P.diff_views(P.nodes_view(got, P.ATTRS + ("atom_map",)), want_n, f"side {side} atom", "decomposed", "original")
        if d:
            raise Violation(f"{tag}:atoms", d)
        d = P.diff_views(P.edges_view(got, ("order",)), P.edges_view(ref, ("order",)), f"side {side} bond", "decomposed", "original")
        if d:
            raise Violation(f"{tag}:bonds", d)


def _sig(G, H):
    """ITS-like graph carrying only (element, aromatic, hcount, charge) x 2 and the order pair."""
    X = nx.Graph()
    nodes, edges = P.reference_its_of(G, H, with_neighbors=False)
    for n, t in nodes.items():
        X.add_node(n, t=t)
    for (u, v), o in edges.items():
        X.add_edge(u, v, o=o)
    return X


def _equivalent(A, B):
    """identity on atom maps, else any label-preserving isomorphism (own backtracking matcher)."""
    if P.nodes_view(A) == P.nodes_view(B) and P.edges_view(A) == P.edges_view(B):
        return True
    return iso.is_isomorphic(A, B, iso.eq_on(["t"]), iso.eq_on(["o"]))


def ref_sides(rsmi, what):
    """RDKit-only side graphs of a reaction SMILES keyed by atom map (+ neighbour symbol lists)."""
    r, p = rsmi.split(">>")
    out = []
    for s in (r, p):
        m = chem_gen.parse(s)
        if m is None:
            raise Violation(f"{what}:unparsable", f"RDKit cannot parse {s}")
        maps = [a.GetAtomMapNum() for a in m.GetAtoms()]
        if 0 in maps or len(set(maps)) != len(maps):
            raise Violation(f"{what}:maps", f"atoms without / with repeated atom map in {s}")
        g = chem_gen.side_graph(s)
        for n in g:
            g.nodes[n]["neighbors"] = sorted(g.nodes[x]["element"] for x in g.adj[n])
        out.append(g)
    return out


# ---------------------------------------------------------------- (i) corpus variants
def body_corpus(case, rec):
    from synkit.Graph.ITS.its_construction import ITSConstruction
    from synkit.Graph.ITS.its_decompose import its_decompose
    from synkit.IO.chem_converter import its_to_rsmi, rsmi_to_graph, rsmi_to_its

    corpus = chem_gen.corpus()
    rsmi, src, style = corpus[case["rxn"] % len(corpus)]
    base, newh = P.explicit_h_variant(rsmi, case.get("hx") or [])
    if case.get("h2"):
        # a mapped bystander H2 on both sides (unchanged H-H bond): still balanced and fully mapped
        import re as _re

        top = max(int(x) for x in _re.findall(r":(\d+)\]", base))
        h2 = f"[H:{top + 1}][H:{top + 2}]"
        rb, pb = base.split(">>")
        base = f"{rb}.{h2}>>{pb}.{h2}"
        rec.label("bystander-H2")
    v = chem_gen.variant(base, case["spec"])
    Gr, Hr = ref_sides(v, "input")  # never raises Violation: the corpus is fully mapped

    # the two graphs SynKit derives from the SMILES are the RDKit-level graphs
    Gs, Hs = rsmi_to_graph(v)
    if Gs is None or Hs is None:
        raise Violation("parse:none", f"rsmi_to_graph returned None for {v}")
    for side, got, ref in (("reactant", Gs, Gr), ("product", Hs, Hr)):
        want = {n: dict({k: ref.nodes[n][k] for k in NODE_KEYS}, atom_map=n) for n in ref}
        d = P.diff_views(P.nodes_view(got, NODE_KEYS + ("atom_map",)), want, f"{side} atom", "rsmi_to_graph", "RDKit")
        if d:
            raise Violation("parse:atoms", f"{v}: {d}")
        d = P.diff_views(P.edges_view(got, ("order",)), P.edges_view(ref, ("order",)), f"{side} bond", "rsmi_to_graph", "RDKit")
        if d:
            raise Violation("parse:bonds", f"{v}: {d}")

    # ITS = union with (before, after) labels; both construction routes
    its = ITSConstruction.ITSGraph(Gs, Hs)
    ref_edges = check_invariant(its, Gr, Hr, "its")
    its2 = rsmi_to_its(v)
    check_invariant(its2, Gr, Hr, "rsmi_to_its")

    one_sided = sum(1 for og, oh in ref_edges.values() if (og == 0) != (oh == 0))
    changed = sum(1 for og, oh in ref_edges.values() if og and oh and og != oh)
    rec.nt(one_sided >= 1 and changed >= 1)
    rec.label(f"style={style}", f"src={src}")
    for k in ("maps", "atoms", "frags", "reverse"):
        if case["spec"].get(k):
            rec.label(k)
    if newh:
        rec.label("added-explicit-H")
    if any(og != oh and 1.5 in (og, oh) for og, oh in ref_edges.values()):
        rec.label("aromatic-change")
    rec.show(dict(rsmi=v, one_sided_bonds=one_sided, order_changes=changed))

    # decomposition gives the two graphs back
    Gd, Hd = its_decompose(its)
    check_decompose(Gd, Hd, Gr, Hr, "decompose")

    # writing the ITS back: explicit-hydrogen mode keeps every atom
    key_in = chem_gen.rxn_key(v)
    X_in = _sig(Gr, Hr)
    out = its_to_rsmi(its, explicit_hydrogen=True)
    if not isinstance(out, str) or ">>" not in out:
        raise Violation("to_rsmi-explicit:none", f"{v}: its_to_rsmi(explicit_hydrogen=True) returned {out!r}")
    if chem_gen.rxn_key(out) != key_in:
        raise Violation("to_rsmi-explicit:unmapped-key", f"{v} -> {out}: unmapped reactants/products differ")
    Go, Ho = ref_sides(out, "to_rsmi-explicit")
    if set(Go) != set(Ho) or not _equivalent(_sig(Go, Ho), X_in):
        raise Violation("to_rsmi-explicit:its", f"{v} -> {out}: ITS of the output is not equivalent to the input ITS")

    # default mode: hydrogens outside the reaction centre may be written as hydrogen counts.  The output must be the
    # input reaction up to that representation choice: fold the spectator hydrogens (our own folding) on both.
    Gf, Hf, folded = P.fold_hydrogens(Gr, Hr)
    out2 = its_to_rsmi(its)
    if not isinstance(out2, str) or ">>" not in out2:
        raise Violation("to_rsmi-default:none", f"{v}: its_to_rsmi returned {out2!r}")
    if chem_gen.rxn_key(out2) != key_in:
        raise Violation("to_rsmi-default:unmapped-key", f"{v} -> {out2}: unmapped reactants/products differ")
    Go, Ho = ref_sides(out2, "to_rsmi-default")
    if set(Go) != set(Ho):
        raise Violation("to_rsmi-default:its", f"{v} -> {out2}: the two sides carry different atom maps")
    Gof, Hof, folded_out = P.fold_hydrogens(Go, Ho)
    if folded:
        rec.label("spectator-H:" + ("kept" if folded_out else "folded"))
    if not _equivalent(_sig(Gof, Hof), _sig(Gf, Hf)):
        raise Violation(
            "to_rsmi-default:its",
            f"{v} -> {out2}: ITS of the output differs from the input ITS (compared after folding spectator hydrogens {folded})",
        )


def _spec():
    """chem_gen's representation-change spec plus an offset for the renumbered maps (non-contiguous numbering)"""
    return st.tuples(chem_gen.variant_spec_strategy(reverse=True), st.sampled_from([0, 0, 13, 500])).map(lambda t: dict(t[0], offset=t[1]))


def strat_corpus(tier):
    n = chem_gen.corpus_size()
    return st.fixed_dictionaries(
        dict(
            rxn=st.integers(0, n - 1),
            spec=_spec(),
            hx=st.one_of(st.none(), st.lists(st.integers(0, 10**4), min_size=1, max_size=3)),
            h2=st.sampled_from([False, False, False, True]),
        )
    )


def enum_corpus_plain(tier):
    """every corpus reaction as written, and reversed"""
    for i in range(chem_gen.corpus_size()):
        for rev in (False, True):
            yield dict(rxn=i, spec=dict(maps=None, atoms=None, frags=None, reverse=rev), hx=None)


# ---------------------------------------------------------------- (ii) synthetic pairs
def body_pair(case, rec):
    from synkit.Graph.ITS.its_construction import ITSConstruction
    from synkit.Graph.ITS.its_decompose import its_decompose

    G, H = P.build_pair(case)
    its = ITSConstruction.ITSGraph(G, H)
    G0, H0 = P.build_pair(case)  # pristine copies: the oracle never reads objects SynKit has seen
    ref_edges = check_invariant(its, G0, H0, "its")
    one_sided = sum(1 for og, oh in ref_edges.values() if (og == 0) != (oh == 0))
    changed = sum(1 for og, oh in ref_edges.values() if og and oh and og != oh)
    rec.nt(one_sided >= 1 and changed >= 1)
    rec.label(f"n={len(case['ids'])}", f"bonds={min(len(case['e']), 6)}")
    if any(e[4] != e[5] for e in case["e"] if e[2] and e[3]):
        rec.label("opposite-orientation")
    if any(a != b for a, b in zip(case["g"], case["h"])):
        rec.label("atom-change")
    rec.show(P.pair_str(case))
    Gd, Hd = its_decompose(its)
    check_decompose(Gd, Hd, G0, H0, "decompose")

    # the keyword route with its documented defaults (store=True keeps (G,H) tuples per attribute)
    its_c = ITSConstruction.construct(G, H)
    check_invariant(its_c, G0, H0, "construct", store=True)
    Gd, Hd = its_decompose(its_c)
    check_decompose(Gd, Hd, G0, H0, "construct-decompose")


def strat_pair(tier):
    return P.pair_cases(min_nodes=2, max_nodes=6, dense=True)


def enum_small_pairs(tier):
    if tier == "thorough":
        yield from P.enum_pairs(3)
        return
    off = int(os.environ.get("VERIF_SEED", "1") or 1)
    yield from P.enum_pairs(2)
    for c in P.enum_pairs(3, stride=50, offset=off):
        if len(c["ids"]) == 3:
            yield c


SUBS = [
    Sub("corpus_plain", body_corpus, enum=enum_corpus_plain, exhaustive=True, shards={"quick": 8, "thorough": 16},
        doc="all 340 corpus reactions as written and reversed: parse, ITS invariant, decompose, its_to_rsmi both modes"),
    Sub("corpus_variants", body_corpus, strategy=strat_corpus, examples={"quick": 1400, "thorough": 14000},
        shards={"quick": 16, "thorough": 16},
        doc="corpus reactions under renumbering / re-ordering / fragment shuffle / reversal / added explicit hydrogens"),
    Sub("pairs_exhaustive", body_pair, enum=enum_small_pairs, exhaustive=("thorough",), shards={"quick": 8, "thorough": 16},
        doc="every synthetic pair on n<=3 (thorough) / n<=2 and a 1/50 slice of n=3 (quick)"),
    Sub("pairs_random", body_pair, strategy=strat_pair, examples={"quick": 5000, "thorough": 100000},
        shards={"quick": 8, "thorough": 16}, doc="synthetic pairs n<=6, dense, independent sides"),
]
