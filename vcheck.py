#!/venv/bin/python
"""Entry point: vcheck.py <Cxx> --tier quick|thorough [--replay file] [--only sub,sub]"""
import argparse
import os
import sys

HERE = os.path.dirname(os.path.abspath(__file__))


def _reexec():
    # deterministic hashing for every process we start
    if os.environ.get("PYTHONHASHSEED") != "0":
        env = dict(os.environ, PYTHONHASHSEED="0")
        os.execve(sys.executable, [sys.executable] + sys.argv, env)


def main():
    _reexec()
    ap = argparse.ArgumentParser()
    ap.add_argument("prop")
    ap.add_argument("--tier", default=os.environ.get("VERIF_TIER", "quick"), choices=["quick", "thorough"])
    ap.add_argument("--replay")
    ap.add_argument("--only")
    a = ap.parse_args()
    sys.path.insert(0, HERE)
    os.chdir(HERE)
    for var in ("OMP_NUM_THREADS", "OPENBLAS_NUM_THREADS", "MKL_NUM_THREADS"):
        os.environ.setdefault(var, "1")
    import warnings

    warnings.filterwarnings("ignore")
    import logging

    logging.disable(logging.CRITICAL)
    from vlib import runner

    try:
        rc = runner.main(a.prop, a.tier, a.replay, a.only.split(",") if a.only else None)
    except BaseException as exc:  # noqa: BLE001 - anything escaping the runner is a harness error, never a verdict
        import traceback

        traceback.print_exc()
        print("HARNESS-ERROR", type(exc).__name__, exc)
        rc = 2
    sys.stdout.flush()
    os._exit(rc)


if __name__ == "__main__":
    main()
